package main

import (
	"bytes"
	"encoding"
	"encoding/gob"
	"fmt"
	"hash"
	"hash/fnv"
	"math"

	"gonum.org/v1/gonum/mathext/prng"
	"gonum.org/v1/gonum/stat/card"
	"verif/simio"
	"verif/simrt"
)

// 6.2 generator and sketch state: checkpoint / restart.

type gen interface {
	Uint64() uint64
	encoding.BinaryMarshaler
	encoding.BinaryUnmarshaler
}

var genNames = []string{"MT19937", "MT19937_64", "SplitMix64", "Xoshiro256plus", "Xoshiro256plusplus", "Xoshiro256starstar"}

// unseededMT marks the workload variant in which a Mersenne Twister is used
// straight from its constructor (documented: it then behaves as if seeded with
// the default seed); a checkpoint taken before the first draw must preserve that.
const unseededMT = ^uint64(0)

// genSeedFromKeys selects, for the run in progress, the array seeding of the
// Mersenne Twisters (SeedFromKeys) instead of Seed.
var genSeedFromKeys bool

func newGen(kind int, seed uint64) gen {
	switch kind {
	case 0:
		g := prng.NewMT19937()
		if seed != unseededMT {
			if genSeedFromKeys {
				g.SeedFromKeys([]uint32{uint32(seed), uint32(seed >> 32), 0x123, uint32(seed>>13) | 1})
			} else {
				g.Seed(seed)
			}
		}
		return g
	case 1:
		g := prng.NewMT19937_64()
		if seed != unseededMT {
			if genSeedFromKeys {
				g.SeedFromKeys([]uint64{seed, seed>>7 | 1, 0x12345})
			} else {
				g.Seed(seed)
			}
		}
		return g
	case 2:
		return prng.NewSplitMix64(seed)
	case 3:
		return prng.NewXoshiro256plus(seed)
	case 4:
		return prng.NewXoshiro256plusplus(seed)
	}
	return prng.NewXoshiro256starstar(seed)
}

// blankGen returns a generator to restore into: the zero value where the
// documentation allows it, otherwise a differently seeded one.
func blankGen(kind int) gen {
	switch kind {
	case 0:
		return new(prng.MT19937)
	case 1:
		return new(prng.MT19937_64)
	case 2:
		return new(prng.SplitMix64)
	}
	return newGen(kind, 0xdeadbeef)
}

func init() {
	register(&Scenario{Name: "prng-state", Run: runPRNG})
	register(&Scenario{Name: "hll-state", Run: runHLL})
	card.RegisterHash(fnv.New64a)
	card.RegisterHash(fnv.New64)
	card.RegisterHash(fnv.New32a)
	card.RegisterHash(fnv.New32)
	card.RegisterHash(newEdgeHash32)
	card.RegisterHash(newEdgeHash64)
}

func runPRNG(c *Ctx) *Violation {
	t := c.T
	kind := t.Choose(simrt.KWorkload, len(genNames))
	seed := uint64(t.Choose(simrt.KValue, 1<<30))<<20 ^ uint64(t.Choose(simrt.KValue, 1<<30))
	name := genNames[kind]
	if kind <= 1 && t.Choose(simrt.KWorkload, 4) == 3 {
		seed = unseededMT
		c.Probe("unseeded_generator_checkpointed", 1)
	}
	genSeedFromKeys = kind <= 1 && seed != unseededMT && t.Choose(simrt.KWorkload, 3) == 2
	c.Instance["generator"] = name
	c.Instance["seed"] = seed
	c.Instance["seeded_from_keys"] = genSeedFromKeys
	c.Declare("restart_crossed_state_refill", "corrupted_state_accepted", "unseeded_generator_checkpointed")
	const L = 1300
	ref := make([]uint64, L+720)
	g := newGen(kind, seed)
	for i := range ref {
		ref[i] = g.Uint64()
	}
	desc := func(s string) func() string {
		return func() string { return name + " seed " + fmt.Sprint(seed) + ": " + s }
	}
	// restart@k for every k in 0..L
	live := newGen(kind, seed)
	var lastEnc, firstEnc, firstCopy []byte
	for k := 0; k <= L; k++ {
		kk := k
		if v := c.Guard(name+"/restart", desc(fmt.Sprintf("checkpoint after %d draws", kk)), func() *Violation {
			enc, err := live.MarshalBinary()
			if err != nil {
				return viol("prng-state/"+name+"/marshal", "MarshalBinary after %d draws: %v", kk, err)
			}
			enc2, _ := live.MarshalBinary()
			c.Oracle("marshal-deterministic")
			if !bytes.Equal(enc, enc2) {
				return viol("prng-state/"+name+"/marshal", "two MarshalBinary calls on the same state differ")
			}
			lastEnc = enc
			if firstEnc == nil {
				firstEnc, firstCopy = enc, append([]byte(nil), enc...)
			}
			r := blankGen(kind)
			if err := r.UnmarshalBinary(enc); err != nil {
				return viol("prng-state/"+name+"/restart", "UnmarshalBinary of a state saved after %d draws failed: %v", kk, err)
			}
			c.Case("restart@k", true, uint64(kind), seed, uint64(kk))
			n := 8
			if kk%50 == 0 {
				n = 700 // crosses a refill of the Mersenne Twister state from every alignment
				c.Probe("restart_crossed_state_refill", 1)
			}
			c.Oracle("restart-stream")
			for i := 0; i < n; i++ {
				if got := r.Uint64(); got != ref[kk+i] {
					return viol("prng-state/"+name+"/restart", "generator restored from the state saved after %d draws: draw %d after the restart is %#x, the uninterrupted stream has %#x", kk, i, got, ref[kk+i])
				}
			}
			// the canonical form survives a round trip
			back, _ := blankGenFrom(kind, enc).MarshalBinary()
			c.Oracle("state-canonical")
			if !bytes.Equal(back, enc) {
				return viol("prng-state/"+name+"/restart", "MarshalBinary(UnmarshalBinary(b)) != b after %d draws", kk)
			}
			if got := live.Uint64(); got != ref[kk] {
				return viol("prng-state/"+name+"/restart", "MarshalBinary disturbed the generator: draw %d is %#x, want %#x", kk, got, ref[kk])
			}
			return nil
		}); v != nil {
			return v
		}
	}
	c.agg.Exhaustive["prng-state/restart_points_per_generator"] = L + 1
	enc := lastEnc
	if firstEnc != nil {
		c.Oracle("encoding-immutable")
		if !bytes.Equal(firstEnc, firstCopy) {
			return viol("prng-state/"+name+"/encoding-changed-after-return", "the bytes returned by the first MarshalBinary call were changed by later calls")
		}
	}
	// truncation at every length
	step := 1
	if len(enc) > 200 {
		step = 1 // still every length: decoding is cheap
	}
	for k := 0; k < len(enc); k += step {
		kk := k
		if v := c.Guard(name+"/truncated", desc(fmt.Sprintf("state truncated to %d of %d bytes", kk, len(enc))), func() *Violation {
			r := blankGen(kind)
			err := r.UnmarshalBinary(enc[:kk])
			c.Case("eof@k", true, uint64(kind), uint64(kk))
			c.Oracle("truncated")
			if err == nil {
				return viol("prng-state/"+name+"/truncated-accepted", "UnmarshalBinary accepted %d of %d state bytes", kk, len(enc))
			}
			return nil
		}); v != nil {
			return v
		}
	}
	// bit rot in the stored state: the generator must stay usable
	nflips := len(enc) * 8
	sampled := nflips > 512
	if sampled {
		nflips = 96
	}
	for i := 0; i < nflips; i++ {
		off, bit := i/8, uint(i%8)
		if sampled {
			off, bit = t.Choose(simrt.KFault, len(enc)), uint(t.Choose(simrt.KFault, 8))
			if i < 32 {
				off = len(enc) - 4 + i/8 // the Mersenne Twister index word: every bit
				bit = uint(i % 8)
			}
		}
		if v := c.Guard(name+"/corrupt", desc(fmt.Sprintf("state with byte %d bit %d flipped", off, bit)), func() *Violation {
			r := blankGen(kind)
			err := r.UnmarshalBinary(simio.Flip(enc, off, bit))
			c.Case("flip", true, uint64(kind), seed, uint64(off), uint64(bit))
			c.Oracle("corrupt-usable")
			if err != nil {
				c.Outcome("corrupt.rejected")
				return nil
			}
			c.Probe("corrupted_state_accepted", 1)
			c.Outcome("corrupt.accepted")
			var x uint64
			for j := 0; j < 2000; j++ {
				x ^= r.Uint64()
			}
			_ = x
			if _, err := r.MarshalBinary(); err != nil {
				return viol("prng-state/"+name+"/corrupt", "generator restored from a damaged state cannot be saved again: %v", err)
			}
			return nil
		}); v != nil {
			return v
		}
	}
	return nil
}

func blankGenFrom(kind int, enc []byte) gen {
	r := blankGen(kind)
	r.UnmarshalBinary(enc)
	return r
}

// sketch abstracts HyperLogLog32 and HyperLogLog64.
type sketch interface {
	Write([]byte) (int, error)
	Count() float64
	encoding.BinaryMarshaler
	encoding.BinaryUnmarshaler
}

type hllKind struct {
	bits   int
	hashes []func() interface{} // constructors of the two hash types
	names  []string
}

func newSketch(bits, prec int, h interface{}) (sketch, error) {
	if bits == 64 {
		var hh hash.Hash64
		if h != nil {
			hh = h.(hash.Hash64)
		}
		return card.NewHyperLogLog64(prec, hh)
	}
	var hh hash.Hash32
	if h != nil {
		hh = h.(hash.Hash32)
	}
	return card.NewHyperLogLog32(prec, hh)
}

func zeroSketch(bits int) sketch {
	if bits == 64 {
		return new(card.HyperLogLog64)
	}
	return new(card.HyperLogLog32)
}

func unionOf(bits int, dst, a, b sketch) error {
	if bits == 64 {
		return dst.(*card.HyperLogLog64).Union(a.(*card.HyperLogLog64), b.(*card.HyperLogLog64))
	}
	return dst.(*card.HyperLogLog32).Union(a.(*card.HyperLogLog32), b.(*card.HyperLogLog32))
}

func setHash(bits int, s sketch, h interface{}) error {
	if bits == 64 {
		return s.(*card.HyperLogLog64).SetHash(h.(hash.Hash64))
	}
	return s.(*card.HyperLogLog32).SetHash(h.(hash.Hash32))
}

// edgeHash32 / edgeHash64: FNV-1a, except that for items whose first byte is
// 'z' only the four top bits of the sum are kept. Whatever the precision, the
// bits below the register index are then all zero and the register takes its
// largest value, w-p+1 - a value a plain FNV hash reaches once in 2^(w-p)
// items.
type edgeHash32 struct {
	hash.Hash32
	sat *bool
}

func newEdgeHash32() hash.Hash32 { return edgeHash32{fnv.New32a(), new(bool)} }
func (h edgeHash32) Write(p []byte) (int, error) {
	if len(p) > 0 && p[0] == 'z' {
		*h.sat = true
	}
	return h.Hash32.Write(p)
}
func (h edgeHash32) Reset() { *h.sat = false; h.Hash32.Reset() }
func (h edgeHash32) Sum32() uint32 {
	if *h.sat {
		return h.Hash32.Sum32() & 0xF0000000
	}
	return h.Hash32.Sum32()
}

type edgeHash64 struct {
	hash.Hash64
	sat *bool
}

func newEdgeHash64() hash.Hash64 { return edgeHash64{fnv.New64a(), new(bool)} }
func (h edgeHash64) Write(p []byte) (int, error) {
	if len(p) > 0 && p[0] == 'z' {
		*h.sat = true
	}
	return h.Hash64.Write(p)
}
func (h edgeHash64) Reset() { *h.sat = false; h.Hash64.Reset() }
func (h edgeHash64) Sum64() uint64 {
	if *h.sat {
		return h.Hash64.Sum64() & 0xF000000000000000
	}
	return h.Hash64.Sum64()
}

func hashCtor(bits, which int) interface{} {
	switch {
	case bits == 64 && which == 2:
		return newEdgeHash64()
	case which == 2:
		return newEdgeHash32()
	case bits == 64 && which == 0:
		return fnv.New64a()
	case bits == 64:
		return fnv.New64()
	case which == 0:
		return fnv.New32a()
	}
	return fnv.New32()
}

// item i; every fifth one starts with 'z' (see edgeHash32)
func item(i int) []byte {
	if i%5 == 3 {
		return []byte(fmt.Sprintf("zitem-%d", i))
	}
	return []byte(fmt.Sprintf("item-%d", i))
}

func runHLL(c *Ctx) *Violation {
	t := c.T
	bits := []int{64, 32}[t.Choose(simrt.KWorkload, 2)]
	prec := 4 + t.Choose(simrt.KWorkload, 7)
	which := t.Choose(simrt.KWorkload, 3)
	n := 1 + t.Choose(simrt.KWorkload, 300)
	if t.Choose(simrt.KWorkload, 8) == 7 {
		n = 2000 + t.Choose(simrt.KWorkload, 3000) // past the small-range correction of every precision up to 10
	}
	name := fmt.Sprintf("HyperLogLog%d", bits)
	c.Instance["sketch"] = name
	c.Instance["precision"] = prec
	c.Instance["hash"] = []string{"fnv-1a", "fnv-1", "fnv-1a with saturating values"}[which]
	c.Instance["writes"] = n
	c.Declare("restored_into_nil_hash", "union_mismatched_precision_rejected", "union_mismatched_hash_rejected", "decode_into_other_hash_rejected", "corrupted_sketch_accepted", "rejected_input_into_used_receiver", "top_precision")
	desc := func(s string) func() string {
		return func() string { return fmt.Sprintf("%s p=%d %v, %d writes: %s", name, prec, c.Instance["hash"], n, s) }
	}
	// the top of the precision range: 2^bits registers cannot exist, so either
	// the constructor and the decoder refuse the precision or what they return
	// is a sketch one can write to (structured header corruption: the precision
	// field set to the word size over an empty register)
	if t.Choose(simrt.KWorkload, 16) == 15 {
		if v := c.Guard(name+"/top-precision", desc("precision equal to the word size"), func() *Violation {
			c.Case("control", false, uint64(bits), 4242)
			c.Oracle("top-precision")
			c.Probe("top_precision", 1)
			probe := func(what string, z sketch) *Violation {
				var p interface{}
				func() {
					defer func() { p = recover() }()
					z.Write(item(1))
					if cnt := z.Count(); math.IsNaN(cnt) || cnt < 0 {
						p = fmt.Sprintf("Count() = %v", cnt)
					}
				}()
				if p != nil {
					return viol("hll-state/"+name+"/top-precision", "%s returned no error, and the sketch cannot be used: %v", what, p)
				}
				return nil
			}
			if z, err := newSketch(bits, bits, hashCtor(bits, which)); err == nil {
				if v := probe(fmt.Sprintf("NewHyperLogLog%d(%d, h)", bits, bits), z); v != nil {
					return v
				}
			}
			var buf bytes.Buffer
			enc := gob.NewEncoder(&buf)
			enc.Encode(uint8(bits))
			small, _ := newSketch(bits, 4, hashCtor(bits, which))
			sb, _ := small.MarshalBinary()
			// the hash name as the package spells it: second value of a real encoding
			dec := gob.NewDecoder(bytes.NewReader(sb))
			var size uint8
			var hname string
			dec.Decode(&size)
			dec.Decode(&hname)
			enc.Encode(hname)
			enc.Encode(uint8(bits))
			enc.Encode([]byte{})
			z, _ := newSketch(bits, 4, hashCtor(bits, which))
			if err := z.UnmarshalBinary(buf.Bytes()); err == nil {
				return probe(fmt.Sprintf("UnmarshalBinary of an encoding with precision %d and an empty register", bits), z)
			}
			return nil
		}); v != nil {
			return v
		}
	}
	var final []byte
	// control + restart@k
	if v := c.Guard(name+"/restart", desc("checkpoint/restart"), func() *Violation {
		ref, err := newSketch(bits, prec, hashCtor(bits, which))
		if err != nil {
			return viol("hll-state/"+name+"/new", "NewHyperLogLog: %v", err)
		}
		points := map[int]bool{0: true, n: true, n / 2: true, t.Choose(simrt.KFault, n+1): true, t.Choose(simrt.KFault, n+1): true}
		type restored struct {
			s sketch
			k int
		}
		var rs []restored
		// every encoding handed out by MarshalBinary, with a private copy:
		// a checkpoint must not change under the caller's feet
		var handed, copies [][]byte
		keep := func(b []byte) []byte {
			handed = append(handed, b)
			copies = append(copies, append([]byte(nil), b...))
			return b
		}
		defer func() {
			// (runs before the closure's result is returned; violations are
			// reported by the explicit check below)
		}()
		for i := 0; i <= n; i++ {
			if points[i] {
				enc, err := ref.MarshalBinary()
				if err != nil {
					return viol("hll-state/"+name+"/marshal", "MarshalBinary after %d writes: %v", i, err)
				}
				keep(enc)
				// (a) into a sketch without a hash: the registered hash is picked
				a := zeroSketch(bits)
				if err := a.UnmarshalBinary(enc); err != nil {
					return viol("hll-state/"+name+"/restore-nil-hash", "UnmarshalBinary into a zero sketch (hash registered with RegisterHash) after %d writes: %v", i, err)
				}
				c.Probe("restored_into_nil_hash", 1)
				// (b) into a sketch with the same hash type
				b, _ := newSketch(bits, 4, hashCtor(bits, which))
				if err := b.UnmarshalBinary(enc); err != nil {
					return viol("hll-state/"+name+"/restore-same-hash", "UnmarshalBinary into a sketch with the same hash type: %v", err)
				}
				// (c) into a sketch with a different hash type: documented to fail
				d, _ := newSketch(bits, prec, hashCtor(bits, (which+1)%3))
				c.Oracle("decode-hash-compat")
				if err := d.UnmarshalBinary(enc); err == nil {
					return viol("hll-state/"+name+"/restore-other-hash-accepted", "UnmarshalBinary into a sketch whose hash function has a different type returned nil; documented: the receiver's hash must be the same type as the stored one")
				}
				c.Probe("decode_into_other_hash_rejected", 1)
				c.Case("restart@k", true, uint64(bits), uint64(prec), uint64(which), uint64(n), uint64(i))
				c.Oracle("restart-count")
				if !sameCount(a.Count(), ref.Count()) || !sameCount(b.Count(), ref.Count()) {
					return viol("hll-state/"+name+"/restart", "restored sketch counts %v / %v, original %v after %d writes", a.Count(), b.Count(), ref.Count(), i)
				}
				back, _ := a.MarshalBinary()
				if !bytes.Equal(back, enc) {
					return viol("hll-state/"+name+"/restart", "MarshalBinary(UnmarshalBinary(b)) != b after %d writes", i)
				}
				rs = append(rs, restored{a, i}, restored{b, i})
			}
			if i < n {
				ref.Write(item(i))
			}
		}
		final, _ = ref.MarshalBinary()
		keep(final)
		// a second sketch of another precision is marshalled in between
		o2, _ := newSketch(bits, 4+(prec-3)%7, hashCtor(bits, which))
		o2.Write(item(n + 1))
		if b2, err := o2.MarshalBinary(); err == nil {
			keep(b2)
		}
		c.Oracle("encoding-immutable")
		for i := range handed {
			if !bytes.Equal(handed[i], copies[i]) {
				return viol("hll-state/"+name+"/encoding-changed-after-return", "the bytes returned by MarshalBinary (checkpoint %d of %d) were changed by a later MarshalBinary call: a saved checkpoint silently becomes another state", i, len(handed))
			}
		}
		// continue every restored sketch with the writes it missed
		for _, r := range rs {
			for i := r.k; i < n; i++ {
				r.s.Write(item(i))
			}
			got, _ := r.s.MarshalBinary()
			c.Oracle("restart-continue")
			if !bytes.Equal(got, final) || !sameCount(r.s.Count(), ref.Count()) {
				return viol("hll-state/"+name+"/restart", "sketch restored after %d writes and fed the remaining %d differs from the uninterrupted sketch (count %v vs %v)", r.k, n-r.k, r.s.Count(), ref.Count())
			}
		}
		// Union of restored sketches
		x, y := zeroSketch(bits), zeroSketch(bits)
		x.UnmarshalBinary(final)
		y.UnmarshalBinary(final)
		u := zeroSketch(bits)
		c.Oracle("union-compatible")
		if err := unionOf(bits, u, x, y); err != nil {
			return viol("hll-state/"+name+"/union", "Union of two sketches restored from the same state failed: %v", err)
		}
		if !sameCount(u.Count(), ref.Count()) {
			return viol("hll-state/"+name+"/union", "Union of a sketch with itself counts %v, the sketch %v", u.Count(), ref.Count())
		}
		// Reset: a restored sketch that is reset and fed again is the
		// uninterrupted sketch; a reset sketch marshals like a new one
		{
			z := zeroSketch(bits)
			z.UnmarshalBinary(final)
			z.(interface{ Reset() }).Reset()
			fresh, _ := newSketch(bits, prec, hashCtor(bits, which))
			ze, _ := z.MarshalBinary()
			fe, _ := fresh.MarshalBinary()
			c.Oracle("reset")
			if z.Count() != 0 || !bytes.Equal(ze, fe) {
				return viol("hll-state/"+name+"/reset", "a restored sketch after Reset counts %v and marshals differently from a new sketch of the same precision and hash: %v", z.Count(), !bytes.Equal(ze, fe))
			}
			for i := 0; i < n; i++ {
				z.Write(item(i))
			}
			ze, _ = z.MarshalBinary()
			if !bytes.Equal(ze, final) {
				return viol("hll-state/"+name+"/reset", "a restored sketch that was Reset and fed the same %d items differs from the uninterrupted sketch", n)
			}
		}
		// the receiver of Union had no hash: it "can be set after a call to Union with the SetHash method"
		c.Oracle("sethash-after-union")
		if err := setHash(bits, u, hashCtor(bits, which)); err != nil {
			return viol("hll-state/"+name+"/sethash", "SetHash on a Union receiver without a hash function returned %q; documented: it sets the hash when none is set", err)
		}
		if err := setHash(bits, u, hashCtor(bits, which)); err == nil {
			return viol("hll-state/"+name+"/sethash", "SetHash on a sketch that already has a hash function returned nil; documented: an error")
		}
		// mismatched precision
		other := 4 + (prec-4+1+t.Choose(simrt.KWorkload, 6))%7
		p2, _ := newSketch(bits, other, hashCtor(bits, which))
		c.Oracle("union-precision")
		if err := unionOf(bits, zeroSketch(bits), x, p2); err == nil {
			return viol("hll-state/"+name+"/union-mismatch-accepted", "Union of sketches with precision %d and %d returned nil", prec, other)
		}
		c.Probe("union_mismatched_precision_rejected", 1)
		// mismatched hash function
		h2, _ := newSketch(bits, prec, hashCtor(bits, (which+1)%3))
		c.Oracle("union-hash")
		if err := unionOf(bits, zeroSketch(bits), x, h2); err == nil {
			return viol("hll-state/"+name+"/union-mismatched-hash-accepted", "Union of a sketch using %T with one using %T returned nil; documented: mismatched hash functions are an error", hashCtor(bits, which), hashCtor(bits, (which+1)%3))
		}
		c.Probe("union_mismatched_hash_rejected", 1)
		// a receiver whose own hash function differs from that of a and b:
		// "or if the receiver has a hash function that is set and does not
		// match those of a and b"; a matching receiver is fine and receives
		// the union over its previous content
		c.Oracle("union-receiver-hash")
		rcv, _ := newSketch(bits, prec, hashCtor(bits, (which+1)%3))
		if err := unionOf(bits, rcv, x, y); err == nil {
			return viol("hll-state/"+name+"/union-receiver-hash-mismatch-accepted", "Union into a receiver using %T of two sketches using %T returned nil; documented: an error", hashCtor(bits, (which+1)%3), hashCtor(bits, which))
		}
		rcv2, _ := newSketch(bits, 4+(prec-4+1)%7, hashCtor(bits, which))
		rcv2.Write(item(n + 1))
		if err := unionOf(bits, rcv2, x, y); err != nil {
			return viol("hll-state/"+name+"/union", "Union into a receiver with the same hash function and another precision failed: %v", err)
		}
		if !sameCount(rcv2.Count(), ref.Count()) {
			return viol("hll-state/"+name+"/union", "Union into a used receiver of another precision counts %v, the operands' union %v", rcv2.Count(), ref.Count())
		}
		return nil
	}); v != nil {
		return v
	}
	if final == nil {
		return nil
	}
	usable := func(s sketch) string {
		s.Write([]byte("probe-a"))
		s.Write([]byte("probe-b"))
		cnt := s.Count()
		// (with the saturating hash of this scenario all registers reach
		// their largest value, where the estimator's large-range
		// correction is undefined and Count is NaN for a sound sketch too)
		if (math.IsNaN(cnt) && which != 2) || cnt < 0 {
			return fmt.Sprintf("Count() = %v", cnt)
		}
		enc, err := s.MarshalBinary()
		if err != nil {
			return "MarshalBinary: " + err.Error()
		}
		// every register holds the position of a leading one bit in
		// bits-p bits: 0 .. bits-p+1
		{
			dec := gob.NewDecoder(bytes.NewReader(enc))
			var size, pp uint8
			var hname string
			var reg []byte
			if dec.Decode(&size) == nil && dec.Decode(&hname) == nil && dec.Decode(&pp) == nil && dec.Decode(&reg) == nil {
				for i, r := range reg {
					if int(r) > bits-int(pp)+1 {
						return fmt.Sprintf("register %d holds %d, more than a %d-bit hash leaves at precision %d (at most %d)", i, r, bits, pp, bits-int(pp)+1)
					}
				}
			}
		}
		z := zeroSketch(bits)
		if err := z.UnmarshalBinary(enc); err != nil {
			return "its own encoding does not decode: " + err.Error()
		}
		if err := unionOf(bits, zeroSketch(bits), s, s); err != nil {
			return "Union with itself: " + err.Error()
		}
		return ""
	}
	// truncation at every length
	for k := 0; k < len(final); k++ {
		kk := k
		if v := c.Guard(name+"/truncated", desc(fmt.Sprintf("encoding truncated to %d of %d bytes", kk, len(final))), func() *Violation {
			z := zeroSketch(bits)
			used := kk%2 == 1
			if used {
				// the receiver is a sketch in use: a rejected input must leave
				// it a sketch one can go on using
				z, _ = newSketch(bits, 4+kk%3, hashCtor(bits, which))
				z.Write(item(0))
			}
			err := z.UnmarshalBinary(final[:kk])
			c.Case("eof@k", true, uint64(bits), hashBytes(final), uint64(kk))
			c.Oracle("truncated")
			if err != nil && used {
				c.Probe("rejected_input_into_used_receiver", 1)
				if why := usable(z); why != "" {
					return viol("hll-state/"+name+"/receiver-unusable-after-rejected-input", "UnmarshalBinary rejected %d of %d bytes (%v) and left the receiver, a sketch of precision %d in use, unusable: %s", kk, len(final), err, 4+kk%3, why)
				}
			}
			if err == nil {
				if why := usable(z); why != "" {
					return viol("hll-state/"+name+"/truncated-accepted-inconsistent", "UnmarshalBinary accepted %d of %d bytes and the sketch is unusable: %s", kk, len(final), why)
				}
				return viol("hll-state/"+name+"/truncated-accepted", "UnmarshalBinary accepted an encoding truncated from %d to %d bytes", len(final), kk)
			}
			return nil
		}); v != nil {
			return v
		}
	}
	// a damaged byte at every offset: error, or a well-formed sketch
	for off := 0; off < len(final); off++ {
		for variant := 0; variant < 3; variant++ {
			var cor []byte
			switch variant {
			case 0:
				cor = simio.Flip(final, off, uint(t.Choose(simrt.KFault, 8)))
			case 1:
				cor = simio.Set(final, off, final[off]+1)
			default:
				cor = simio.Set(final, off, ^final[off])
			}
			o, vr := off, variant
			if v := c.Guard(name+"/corrupt", func() string {
				return fmt.Sprintf("%s p=%d: encoding with byte %d changed %#02x -> %#02x: %x", name, prec, o, final[o], cor[o], cor)
			}, func() *Violation {
				z := zeroSketch(bits)
				used := (o+vr)%2 == 1
				if used {
					z, _ = newSketch(bits, 4+(o+vr)%3, hashCtor(bits, which))
					z.Write(item(0))
				}
				err := z.UnmarshalBinary(cor)
				c.Case("set(byte)", true, uint64(bits), hashBytes(final), uint64(o), uint64(vr), uint64(cor[o]))
				c.Oracle("corrupt-wellformed")
				if err != nil {
					c.Outcome("corrupt.rejected")
					if used {
						c.Probe("rejected_input_into_used_receiver", 1)
						if why := usable(z); why != "" {
							return viol("hll-state/"+name+"/receiver-unusable-after-rejected-input", "UnmarshalBinary rejected the encoding with byte %d changed %#02x -> %#02x (%v) and left the receiver, a sketch of precision %d in use, unusable: %s", o, final[o], cor[o], err, 4+(o+vr)%3, why)
						}
					}
					return nil
				}
				c.Outcome("corrupt.accepted")
				c.Probe("corrupted_sketch_accepted", 1)
				if why := usable(z); why != "" {
					return viol("hll-state/"+name+"/corrupt-accepted-inconsistent", "encoding with byte %d changed %#02x -> %#02x decoded with err=nil but the sketch is unusable: %s", o, final[o], cor[o], why)
				}
				return nil
			}); v != nil {
				return v
			}
		}
	}
	c.agg.Exhaustive["hll-state/byte_offsets_per_encoding"] = int64(len(final))
	return nil
}

// sameCount compares two estimates of one register state. (A sketch whose
// registers are all saturated is outside the estimator's domain - the
// large-range correction takes the logarithm of a negative number - and counts
// NaN, before a checkpoint and after it alike; the saturating hash of this
// scenario gets there in a few hundred writes, a real hash after 2^32 items.)
func sameCount(a, b float64) bool {
	return a == b || (math.IsNaN(a) && math.IsNaN(b))
}
