// Command harness16 is the C16 worker: codecs under simulated stream and
// storage faults (DESIGN.md section 6). It builds directly against a copy of
// the current /repo tree; no rewrite is needed because the codecs have no
// concurrency.
package main

import (
	"encoding/json"
	"flag"
	"fmt"
	"os"
	"path/filepath"
	"runtime/debug"
	"sort"
	"strings"
	"sync/atomic"
	"time"

	"verif/simrt"
)

// Violation is an oracle failure; Oracle is its signature.
type Violation struct {
	Property string `json:"property"`
	Oracle   string `json:"oracle"`
	Msg      string `json:"msg"`
}

func viol(oracle, format string, a ...interface{}) *Violation {
	return &Violation{"C16", oracle, fmt.Sprintf(format, a...)}
}

// Scenario is one codec with its control and fault arms.
type Scenario struct {
	Name string
	Run  func(c *Ctx) *Violation
}

var scenarios []*Scenario

func register(s *Scenario) { scenarios = append(scenarios, s) }

// tapeChooser adapts a tape to simio.Chooser.
type tapeChooser struct{ t *simrt.Tape }

func (tc tapeChooser) Choose(n int) int { return tc.t.Choose(simrt.KFault, n) }

// Agg aggregates evidence over the runs of a worker.
type Agg struct {
	Runs        int              `json:"runs"`
	Cases       int64            `json:"cases"` // decoder / encoder calls under a fault or control plan
	Faults      map[string]int64 `json:"faults"`
	Outcomes    map[string]int64 `json:"outcomes"`
	Probes      map[string]int64 `json:"probes"`
	Oracles     map[string]int64 `json:"oracle_evaluations"`
	PerScenario map[string]int64 `json:"runs_per_scenario"`
	Samples     []interface{}    `json:"samples"`
	Exhaustive  map[string]int64 `json:"exhaustive_enumerations"`
	distinct    map[uint64]struct{}
	nontrivial  map[uint64]struct{}
}

func newAgg() *Agg {
	return &Agg{Faults: map[string]int64{}, Outcomes: map[string]int64{}, Probes: map[string]int64{}, Oracles: map[string]int64{}, PerScenario: map[string]int64{}, Exhaustive: map[string]int64{},
		distinct: map[uint64]struct{}{}, nontrivial: map[uint64]struct{}{}}
}

// Ctx is the per-run context.
type Ctx struct {
	T        *simrt.Tape
	Instance map[string]interface{}
	agg      *Agg
	scen     string
	cur      string // description of the case being executed (for the hang watchdog)
	run      int
}

// known findings: counted and skipped so that the rest of the enumeration
// still runs
var knownSigs = map[string]bool{}
var knownHits = map[string]*knownHit{}

func (c *Ctx) absorb(v *Violation) *Violation {
	if v == nil || !knownSigs[v.Property+"|"+v.Oracle] {
		return v
	}
	kh := knownHits[v.Oracle]
	if kh == nil {
		kh = &knownHit{Example: fmt.Sprintf("run %d: %s", c.run, v.Msg)}
		knownHits[v.Oracle] = kh
	}
	kh.Count++
	return nil
}

// current case, shared with the watchdog
var curCase atomic.Value
var curStart atomic.Int64

// Case accounts for one execution of code under test. kind names the fault
// (or "control"); key identifies the case (value hash, offset, bit, ...);
// nontrivial says whether the fault actually bites (changes bytes that are
// read, cuts the stream inside the encoding, ...).
func (c *Ctx) Case(kind string, nontrivial bool, key ...uint64) {
	c.agg.Cases++
	c.agg.Faults[c.scen+"/"+kind]++
	h := simrt.Mix(append([]uint64{hashString(c.scen), hashString(kind)}, key...)...)
	c.agg.distinct[h] = struct{}{}
	if nontrivial {
		c.agg.nontrivial[h] = struct{}{}
	}
}

// Outcome counts what the code under test did with a case.
func (c *Ctx) Outcome(name string) { c.agg.Outcomes[c.scen+"/"+name]++ }
func (c *Ctx) Probe(name string, n int) {
	if n != 0 {
		c.agg.Probes[c.scen+"/"+name] += int64(n)
	}
}
func (c *Ctx) Declare(names ...string) {
	for _, n := range names {
		if _, ok := c.agg.Probes[c.scen+"/"+n]; !ok {
			c.agg.Probes[c.scen+"/"+n] = 0
		}
	}
}
func (c *Ctx) Oracle(name string) { c.agg.Oracles[c.scen+"/"+name]++ }

// Guard runs f; a panic becomes a violation with signature oracle+"/panic".
// desc describes the input for the hang watchdog and the message.
func (c *Ctx) Guard(oracle string, desc func() string, f func() *Violation) (v *Violation) {
	curCase.Store(guardInfo{c.scen, oracle, desc})
	curStart.Store(time.Now().UnixNano())
	defer func() {
		curStart.Store(0)
		if r := recover(); r != nil {
			v = viol(c.scen+"/"+oracle+"/panic", "panic: %v\ninput: %s\n%s", r, desc(), trimStack(string(debug.Stack())))
		}
		v = c.absorb(v)
	}()
	return f()
}

type guardInfo struct {
	scen, oracle string
	desc         func() string
}

func trimStack(s string) string {
	lines := strings.Split(s, "\n")
	var keep []string
	for _, l := range lines {
		if strings.Contains(l, "runtime/") || strings.Contains(l, "debug.Stack") || strings.Contains(l, "harness16/main.go") {
			continue
		}
		keep = append(keep, l)
		if len(keep) > 16 {
			break
		}
	}
	return strings.Join(keep, "\n")
}

func hashString(s string) uint64 {
	h := uint64(14695981039346656037)
	for i := 0; i < len(s); i++ {
		h ^= uint64(s[i])
		h *= 1099511628211
	}
	return h
}

func hashBytes(b []byte) uint64 {
	h := uint64(14695981039346656037)
	for _, c := range b {
		h ^= uint64(c)
		h *= 1099511628211
	}
	return h
}

type workerOut struct {
	Property   string               `json:"property"`
	Seed       uint64               `json:"seed"`
	From       int                  `json:"from"`
	To         int                  `json:"to"`
	WallS      float64              `json:"wall_s"`
	Agg        *Agg                 `json:"agg"`
	Distinct   int                  `json:"distinct_cases"`
	Nontrivial int                  `json:"distinct_nontrivial_cases"`
	Violations []violationOut       `json:"violations"`
	KnownHits  map[string]*knownHit `json:"known_hits,omitempty"`
	Infra      string               `json:"infrastructure_error,omitempty"`
}

type knownHit struct {
	Count   int    `json:"count"`
	Example string `json:"example"`
}

type violationOut struct {
	Violation
	Scenario string `json:"scenario"`
	Run      int    `json:"run"`
	Replay   string `json:"replay"`
}

type replayFile struct {
	Property string                 `json:"property"`
	Engine   string                 `json:"engine"`
	Scenario string                 `json:"scenario"`
	Oracle   string                 `json:"oracle"`
	Msg      string                 `json:"msg"`
	Seed     uint64                 `json:"seed"`
	Run      int                    `json:"run"`
	Tape     []uint32               `json:"tape"`
	TapeLen0 int                    `json:"tape_len_before_minimisation"`
	Reruns   int                    `json:"minimisation_reruns"`
	Instance map[string]interface{} `json:"instance"`
}

var currentRun int

func execute(s *Scenario, t *simrt.Tape, agg *Agg) (*Violation, *Ctx) {
	c := &Ctx{T: t, Instance: map[string]interface{}{}, agg: agg, scen: s.Name, run: currentRun}
	v := c.absorb(s.Run(c))
	return v, c
}

func minimise(s *Scenario, tape []uint32, sig string, budget int, deadline time.Time) ([]uint32, int) {
	reruns := 0
	fails := func(c []uint32) bool {
		if reruns >= budget || time.Now().After(deadline) {
			return false
		}
		reruns++
		v, _ := execute(s, simrt.ReplayTape(c), newAgg())
		return v != nil && v.Oracle == sig
	}
	cur := append([]uint32(nil), tape...)
	lo, hi := 0, len(cur)
	for lo < hi {
		mid := (lo + hi) / 2
		if fails(cur[:mid]) {
			hi = mid
		} else {
			lo = mid + 1
		}
	}
	if hi < len(cur) && fails(cur[:hi]) {
		cur = cur[:hi]
	}
	for n := len(cur) / 2; n >= 1; n /= 2 {
		for i := 0; i+n <= len(cur); {
			c := append(append([]uint32(nil), cur[:i]...), cur[i+n:]...)
			if fails(c) {
				cur = c
			} else {
				i += n
			}
		}
	}
	for i := range cur {
		if cur[i] == 0 {
			continue
		}
		old := cur[i]
		cur[i] = 0
		if fails(cur) {
			continue
		}
		cur[i] = old
		for v := old / 2; v > 0; v /= 2 {
			cur[i] = v
			if !fails(cur) {
				cur[i] = old
				break
			}
			old = v
		}
	}
	for len(cur) > 0 && cur[len(cur)-1] == 0 {
		cur = cur[:len(cur)-1]
	}
	return cur, reruns
}

func writeReplay(dir string, rf *replayFile) string {
	os.MkdirAll(dir, 0o755)
	sig := strings.NewReplacer("/", "_", " ", "_").Replace(rf.Oracle)
	path := filepath.Join(dir, fmt.Sprintf("%s-%s-%d-%d.json", rf.Property, sig, rf.Seed, rf.Run))
	b, _ := json.MarshalIndent(rf, "", " ")
	os.WriteFile(path, b, 0o644)
	return path
}

func main() {
	only := flag.String("scenario", "", "run only this scenario")
	seed := flag.Uint64("seed", 1, "VERIF_SEED")
	from := flag.Int("from", 0, "first run index")
	to := flag.Int("to", 100, "one past the last run index")
	stride := flag.Int("stride", 1, "run index stride")
	budget := flag.Duration("budget", 0, "stop after this much wall time")
	outPath := flag.String("out", "", "worker summary (JSON)")
	replayDir := flag.String("replays", "replays", "directory for replay files")
	replay := flag.String("replay", "", "replay this file")
	knownPath := flag.String("known", "", "known findings (JSON list)")
	hangS := flag.Int("hang", 20, "seconds before a single decoder call counts as a hang")
	flag.Parse()
	sort.Slice(scenarios, func(i, j int) bool { return scenarios[i].Name < scenarios[j].Name })
	if *replay != "" {
		os.Exit(doReplay(*replay, *hangS))
	}
	var scs []*Scenario
	for _, s := range scenarios {
		if *only == "" || s.Name == *only {
			scs = append(scs, s)
		}
	}
	if len(scs) == 0 {
		fmt.Fprintln(os.Stderr, "harness16: no scenario")
		os.Exit(2)
	}
	if *only == "" {
		// cheap scenarios get more of the run indices (a run of rdf-c14n costs
		// ~6 ms, one of dot ~150 ms)
		weights := map[string]int{"rdf-c14n": 8, "dot-text": 3, "prng-state": 1, "hll-state": 2, "rdf-lean": 4, "rdf-graph": 2}
		var sched []*Scenario
		for _, s := range scs {
			w := weights[s.Name]
			if w == 0 {
				w = 1
			}
			for i := 0; i < w; i++ {
				sched = append(sched, s)
			}
		}
		scs = sched
	}
	if *knownPath != "" {
		var list []struct{ Property, Signature string }
		if b, err := os.ReadFile(*knownPath); err == nil && json.Unmarshal(b, &list) == nil {
			for _, k := range list {
				knownSigs[k.Property+"|"+k.Signature] = true
			}
		}
	}
	agg := newAgg()
	wo := &workerOut{Property: "C16", Seed: *seed, From: *from, To: *to, Agg: agg, KnownHits: knownHits}
	start := time.Now()
	finish := func(code int) {
		wo.WallS = time.Since(start).Seconds()
		wo.Distinct = len(agg.distinct)
		wo.Nontrivial = len(agg.nontrivial)
		b, _ := json.Marshal(wo)
		if *outPath != "" {
			os.WriteFile(*outPath, b, 0o644)
		} else {
			os.Stdout.Write(b)
			fmt.Println()
		}
		os.Exit(code)
	}
	var curRun atomic.Int64
	var curScen atomic.Value
	var curTape atomic.Value
	go func() { // hang watchdog
		for {
			time.Sleep(500 * time.Millisecond)
			st := curStart.Load()
			if st != 0 && time.Since(time.Unix(0, st)) > time.Duration(*hangS)*time.Second {
				gi := curCase.Load().(guardInfo)
				t, _ := curTape.Load().(*simrt.Tape)
				sname, _ := curScen.Load().(string)
				rf := &replayFile{Property: "C16", Engine: "simio", Scenario: sname, Oracle: gi.scen + "/" + gi.oracle + "/hang",
					Msg: fmt.Sprintf("no result after %ds for input: %s", *hangS, gi.desc()), Seed: *seed, Run: int(curRun.Load())}
				if t != nil {
					rf.Tape = t.Recorded()
				}
				path := writeReplay(*replayDir, rf)
				wo.Violations = append(wo.Violations, violationOut{Violation{"C16", rf.Oracle, rf.Msg}, sname, rf.Run, path})
				finish(1)
			}
		}
	}()
	seen := map[string]bool{}
	for run := *from; run < *to; run += *stride {
		if *budget > 0 && time.Since(start) > *budget {
			wo.To = run
			break
		}
		s := scs[run%len(scs)]
		t := simrt.NewTape(simrt.Mix(*seed, hashString("C16"), hashString(s.Name), uint64(run)))
		curRun.Store(int64(run))
		currentRun = run
		curScen.Store(s.Name)
		curTape.Store(t)
		v, c := execute(s, t, agg)
		agg.Runs++
		agg.PerScenario[s.Name]++
		if len(agg.Samples) < 2*len(scs) && agg.PerScenario[s.Name] <= 2 {
			agg.Samples = append(agg.Samples, map[string]interface{}{"scenario": s.Name, "run": run, "instance": c.Instance})
		}
		if v == nil {
			continue
		}
		vo := violationOut{Violation: *v, Scenario: s.Name, Run: run}
		if !seen[v.Oracle] {
			seen[v.Oracle] = true
			rf := &replayFile{Property: "C16", Engine: "simio", Scenario: s.Name, Oracle: v.Oracle, Msg: v.Msg, Seed: *seed, Run: run}
			tape := t.Recorded()
			rf.TapeLen0 = len(tape)
			rf.Tape, rf.Reruns = minimise(s, tape, v.Oracle, 300, time.Now().Add(60*time.Second))
			v3, c3 := execute(s, simrt.ReplayTape(rf.Tape), newAgg())
			if v3 != nil {
				rf.Msg = v3.Msg
			}
			rf.Instance = c3.Instance
			vo.Replay = writeReplay(*replayDir, rf)
			vo.Msg = rf.Msg
		}
		wo.Violations = append(wo.Violations, vo)
		if len(wo.Violations) >= 40 {
			wo.To = run + 1
			break
		}
	}
	if len(wo.Violations) > 0 {
		finish(1)
	}
	finish(0)
}

func doReplay(path string, hangS int) int {
	b, err := os.ReadFile(path)
	if err != nil {
		fmt.Fprintln(os.Stderr, "harness16:", err)
		return 2
	}
	var rf replayFile
	if err := json.Unmarshal(b, &rf); err != nil {
		fmt.Fprintln(os.Stderr, "harness16:", err)
		return 2
	}
	var s *Scenario
	for _, x := range scenarios {
		if x.Name == rf.Scenario {
			s = x
		}
	}
	if s == nil {
		fmt.Fprintln(os.Stderr, "harness16: unknown scenario", rf.Scenario)
		return 2
	}
	done := make(chan *Violation, 1)
	var ctx *Ctx
	go func() {
		v, c := execute(s, simrt.ReplayTape(rf.Tape), newAgg())
		ctx = c
		done <- v
	}()
	select {
	case v := <-done:
		fmt.Printf("instance: %v\n", ctx.Instance)
		if v == nil {
			fmt.Printf("replay of %s: not reproduced on this tree (no oracle failed)\n", path)
			return 0
		}
		fmt.Printf("oracle: %s\nmessage: %s\n", v.Oracle, v.Msg)
		if v.Oracle == rf.Oracle {
			fmt.Printf("replay of %s: reproduced (same oracle)\n", path)
		} else {
			fmt.Printf("replay of %s: a different oracle failed (recorded %s)\n", path, rf.Oracle)
		}
		fmt.Printf("VIOLATION property=C16 replay=%s\n", path)
		return 1
	case <-time.After(time.Duration(6*hangS) * time.Second):
		fmt.Printf("oracle: %s\nmessage: still no result after %ds\n", rf.Oracle, 6*hangS)
		fmt.Printf("VIOLATION property=C16 replay=%s\n", path)
		return 1
	}
}
