package main

import (
	"fmt"
	"sort"
	"strings"

	"gonum.org/v1/gonum/graph/formats/rdf"
	"verif/simrt"
)

// rdf-lean: rdf.Lean ("returns an RDF core of g that entails g",
// equi_canonical.go:18-23) on small generated graphs, judged by brute force:
//
//	subgraph     every statement of the result is a statement of the input
//	entails      some map of the input's blank nodes to terms of the result
//	             (identity on IRIs and literals) sends every input statement
//	             into the result
//	lean         no such map of the result into itself has a smaller image
//	invariance   a relabelled and reordered input gives an isomorphic result
//	             (the core is unique up to isomorphism)
//	labels       with graph names Lean reports an error and still returns the
//	             core of the label-free reading
//
// The data-set is regenerated from its serialisation before every call
// because Lean reorders and truncates the slice it is given.

func init() {
	register(&Scenario{Name: "rdf-lean", Run: runRDFLean})
}

var leanPreds = []string{"<ex:p>", "<ex:q>"}
var leanGround = []string{"<ex:a>", "<ex:b>", `"v"`, `"m"@en`, `"1"^^<ex:int>`}

func leanDraw(t *simrt.Tape) []*rdf.Statement {
	nb := 1 + t.Choose(simrt.KWorkload, 5)
	np := 1 + t.Choose(simrt.KWorkload, 2)
	ng := t.Choose(simrt.KWorkload, 4)
	goff := t.Choose(simrt.KWorkload, len(leanGround)) // which ground terms: IRIs, plain and qualified literals
	n := 1 + t.Choose(simrt.KWorkload, 9)
	term := func(subject bool) string {
		k := t.Choose(simrt.KValue, nb+ng)
		if k < nb {
			return fmt.Sprintf("_:b%d", k)
		}
		g := leanGround[(k-nb+goff)%len(leanGround)]
		if subject && strings.HasPrefix(g, `"`) {
			return leanGround[0]
		}
		return g
	}
	var ds []*rdf.Statement
	switch t.Choose(simrt.KWorkload, 4) {
	case 3:
		// structured redundancy: a path and a shorter copy of it hanging off
		// the same ground node (the copy folds onto the path)
		l := 2 + t.Choose(simrt.KWorkload, 3)
		prev := "<ex:a>"
		for i := 0; i < l; i++ {
			cur := fmt.Sprintf("_:b%d", i)
			ds = append(ds, rdfStmt(prev, "<ex:p>", cur, ""))
			prev = cur
		}
		prev = "<ex:a>"
		for i := 0; i < l-1; i++ {
			cur := fmt.Sprintf("_:c%d", i)
			ds = append(ds, rdfStmt(prev, "<ex:p>", cur, ""))
			prev = cur
		}
		if t.Choose(simrt.KWorkload, 2) == 1 {
			ds = append(ds, rdfStmt(prev, "<ex:q>", `"v"`, ""))
		}
	default:
		for i := 0; i < n; i++ {
			ds = append(ds, rdfStmt(term(true), leanPreds[t.Choose(simrt.KValue, np)], term(false), ""))
		}
	}
	return rdfSet(ds)
}

func leanClone(ds []*rdf.Statement) []*rdf.Statement {
	out := make([]*rdf.Statement, len(ds))
	for i, s := range ds {
		out[i] = rdfStmt(s.Subject.Value, s.Predicate.Value, s.Object.Value, s.Label.Value)
	}
	return out
}

func leanTriples(ds []*rdf.Statement) map[[3]string]bool {
	m := map[[3]string]bool{}
	for _, s := range ds {
		m[[3]string{s.Subject.Value, s.Predicate.Value, s.Object.Value}] = true
	}
	return m
}

func leanTerms(ds []*rdf.Statement) []string {
	seen := map[string]bool{}
	var out []string
	for _, s := range ds {
		for _, v := range []string{s.Subject.Value, s.Object.Value} {
			if !seen[v] {
				seen[v] = true
				out = append(out, v)
			}
		}
	}
	sort.Strings(out)
	return out
}

func leanBlanks(ds []*rdf.Statement) []string {
	var out []string
	for _, v := range leanTerms(ds) {
		if rdfIsBlank(v) {
			out = append(out, v)
		}
	}
	return out
}

// leanHom enumerates the maps of from's blank nodes to terms of to and
// reports the first for which accept(image) holds. ok is false when the
// space is too large.
func leanHom(from, to []*rdf.Statement, accept func(image map[[3]string]bool) bool) (found, ok bool) {
	blanks := leanBlanks(from)
	terms := leanTerms(to)
	space := 1.0
	for range blanks {
		space *= float64(len(terms))
		if space > 3e5 {
			return false, false
		}
	}
	target := leanTriples(to)
	mu := map[string]string{}
	tr := func(v string) string {
		if w, ok := mu[v]; ok {
			return w
		}
		return v
	}
	var rec func(i int) bool
	rec = func(i int) bool {
		if i == len(blanks) {
			img := map[[3]string]bool{}
			for _, s := range from {
				k := [3]string{tr(s.Subject.Value), s.Predicate.Value, tr(s.Object.Value)}
				if !target[k] {
					return false
				}
				img[k] = true
			}
			return accept(img)
		}
		for _, x := range terms {
			// a subject cannot be a literal
			mu[blanks[i]] = x
			if rec(i + 1) {
				return true
			}
		}
		delete(mu, blanks[i])
		return false
	}
	return rec(0), true
}

func runRDFLean(c *Ctx) *Violation {
	t := c.T
	c.Declare("input_was_not_lean", "input_already_lean", "brute_force_skipped", "labelled_dataset")
	g := leanDraw(t)
	src := rdfSerialize(g)
	c.Instance["statements"] = len(g)
	c.Instance["dataset"] = src
	desc := func() string { return src }

	var core []*rdf.Statement
	if v := c.Guard("Lean", desc, func() *Violation {
		in := leanClone(g)
		out, err := rdf.Lean(in)
		c.Case("control", false, hashString(src))
		c.Oracle("lean-core")
		if err != nil {
			return viol("rdf-lean/error", "Lean fails on a label-free graph: %v", err)
		}
		core = rdfSet(leanClone(out))
		gt := leanTriples(g)
		for _, s := range core {
			if !gt[[3]string{s.Subject.Value, s.Predicate.Value, s.Object.Value}] || s.Label.Value != "" {
				return viol("rdf-lean/not-a-subgraph", "Lean returned %s, which is not a statement of the input; result:\n%s", rdfShow(s), rdfSerialize(core))
			}
		}
		if len(core) < len(g) {
			c.Probe("input_was_not_lean", 1)
		} else {
			c.Probe("input_already_lean", 1)
		}
		found, ok := leanHom(g, core, func(map[[3]string]bool) bool { return true })
		if !ok {
			c.Probe("brute_force_skipped", 1)
			return nil
		}
		if !found {
			return viol("rdf-lean/does-not-entail-input", "no map of the input's blank nodes sends the input into Lean's result, so the result does not entail the input; result:\n%s", rdfSerialize(core))
		}
		smaller, ok := leanHom(core, core, func(img map[[3]string]bool) bool { return len(img) < len(core) })
		if ok && smaller {
			return viol("rdf-lean/result-not-lean", "Lean's result maps homomorphically onto a proper subgraph of itself, so it is not a core; result:\n%s", rdfSerialize(core))
		}
		return nil
	}); v != nil {
		return v
	}

	// relabelled and reordered input
	blanks := rdfBlanks(g)
	m := map[string]string{}
	perm := make([]int, len(blanks))
	for i := range perm {
		perm[i] = i
	}
	for i := len(perm) - 1; i > 0; i-- {
		j := t.Choose(simrt.KFault, i+1)
		perm[i], perm[j] = perm[j], perm[i]
	}
	for i, b := range blanks {
		m[b] = fmt.Sprintf("_:z%d", perm[i])
	}
	variant := rdfPermute(t, rdfRelabel(g, m))
	if v := c.Guard("Lean/variant", func() string { return src + "variant:\n" + rdfSerialize(variant) }, func() *Violation {
		out, err := rdf.Lean(leanClone(variant))
		c.Case("reorder/dup", true, hashString(src), hashString(rdfSerialize(variant)))
		c.Oracle("lean-invariance")
		if err != nil {
			return viol("rdf-lean/error", "Lean fails on a label-free graph: %v", err)
		}
		vc := rdfSet(leanClone(out))
		if len(vc) != len(core) {
			return viol("rdf-lean/variant-changes-size", "the core has %d statements, the core of a relabelled and reordered copy has %d\ncore:\n%svariant core:\n%s", len(core), len(vc), rdfSerialize(core), rdfSerialize(vc))
		}
		if iso, ok := rdfBruteIso(core, vc); ok && !iso {
			return viol("rdf-lean/variant-not-isomorphic", "the core of a relabelled and reordered copy is not isomorphic to the core\ncore:\n%svariant core:\n%s", rdfSerialize(core), rdfSerialize(vc))
		}
		return nil
	}); v != nil {
		return v
	}

	// graph names: an error, and the same core as for the label-free reading
	if t.Choose(simrt.KWorkload, 3) == 2 {
		c.Probe("labelled_dataset", 1)
		lab := leanClone(g)
		for i := range lab {
			if t.Choose(simrt.KValue, 2) == 1 || i == 0 {
				lab[i].Label.Value = "<ex:g1>"
			}
		}
		if v := c.Guard("Lean/labels", func() string { return rdfSerialize(lab) }, func() *Violation {
			out, err := rdf.Lean(leanClone(lab))
			c.Case("control", false, hashString(rdfSerialize(lab)))
			c.Oracle("lean-labels")
			if err == nil {
				return viol("rdf-lean/labels-no-error", "Lean accepted a data-set with graph names without the documented error")
			}
			// "a core of g assuming no graph labels exist": judged on the
			// triples, two statements that differ only in their graph name
			// being the same triple
			if n := len(leanTriples(out)); len(rdfBlanks(g)) > 0 && n != len(core) {
				return viol("rdf-lean/labels-change-core", "with graph names ignored the core has %d triples, Lean returned %d distinct triples", len(core), n)
			}
			return nil
		}); v != nil {
			return v
		}
	}
	return nil
}
