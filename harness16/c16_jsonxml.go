package main

import (
	"bytes"
	"encoding/json"
	"encoding/xml"
	"fmt"
	"reflect"
	"strconv"
	"strings"
	"time"

	"gonum.org/v1/gonum/graph/formats/cytoscapejs"
	"gonum.org/v1/gonum/graph/formats/gexf12"
	"gonum.org/v1/gonum/graph/formats/sigmajs"
	"verif/simio"
	"verif/simrt"
)

// 6.x JSON / XML graph document formats (graph/formats/cytoscapejs, sigmajs,
// gexf12).
//
// Behaviour relied on:
//   - the types implement json.Marshaler / json.Unmarshaler (xml.Marshaler /
//     xml.Unmarshaler for gexf12.Meta): what Marshal writes, Unmarshal reads
//     back (the packages' own tests check exactly this with reflect.DeepEqual);
//   - the data containers hoist "id", "source", "target", "parent" out of the
//     attribute map and put them back on Marshal; non-string values of those
//     keys are converted with fmt.Sprint;
//   - cytoscapejs.Element.Type: "returns the element type of the receiver";
//   - encoding/json and encoding/xml reject incomplete documents.
//
// Values are generated so that nil/empty distinctions the decoders do not
// preserve never occur (empty non-nil attribute maps, empty non-nil slices
// under omitempty, int-typed numbers, invalid UTF-8, NaN): DeepEqual on the
// control arm is then exact.

type jxFormat struct {
	scen, typ string
	fresh     func() interface{}
	marshal   func(interface{}) ([]byte, error)
	unmarshal func([]byte, interface{}) error
	// expect turns the value handed to Marshal into the value Unmarshal owes
	// (nil: the same value)
	expect func(interface{})
}

func jxJSON(scen, typ string, fresh func() interface{}) *jxFormat {
	return &jxFormat{scen, typ, fresh, json.Marshal, json.Unmarshal, nil}
}

var (
	jxCytoElem     = jxJSON("cytoscapejs", "GraphElem", func() interface{} { return new(cytoscapejs.GraphElem) })
	jxCytoNodeEdge = jxJSON("cytoscapejs", "GraphNodeEdge", func() interface{} { return new(cytoscapejs.GraphNodeEdge) })
	jxSigma        = jxJSON("sigmajs", "Graph", func() interface{} { return new(sigmajs.Graph) })
	jxGexf         = &jxFormat{"gexf12", "Content", func() interface{} { return new(gexf12.Content) }, xml.Marshal, xml.Unmarshal, nil}
)

func init() {
	register(&Scenario{Name: "cytoscapejs", Run: jxRunCytoscape})
	register(&Scenario{Name: "sigmajs", Run: jxRunSigma})
	register(&Scenario{Name: "gexf12", Run: jxRunGexf})
}

var jxSubs = []byte{'"', '\\', '{', '}', '[', ']', ':', ',', 0x00, 0x80, 0xFF, '<', '>', '&'}

func jxShow(b []byte) string {
	if len(b) <= 900 {
		return strconv.Quote(string(b))
	}
	return fmt.Sprintf("%q... (%d bytes, hash %#x)", b[:900], len(b), hashBytes(b))
}

func (f *jxFormat) sig(what string) string { return f.scen + "/" + f.typ + "/" + what }

// jxAccepted is the oracle for a document that is not the output of Marshal
// (damaged, or hand written): Unmarshal returns an error, or a value that
// Marshal can write, that Unmarshal reads back, and that is then stable.
func jxAccepted(c *Ctx, f *jxFormat, kind, what string, doc []byte) *Violation {
	v1 := f.fresh()
	if err := f.unmarshal(doc, v1); err != nil {
		c.Outcome(kind + ".rejected")
		return nil
	}
	c.Outcome(kind + ".accepted")
	c.Probe(kind+"_document_accepted", 1)
	c.Oracle("accepted-value-stable")
	b2, err := f.marshal(v1)
	if err != nil {
		return viol(f.sig("accepted-remarshal-error"), "%s: Unmarshal accepted the document but Marshal of the value fails: %v\ndocument: %s", what, err, jxShow(doc))
	}
	v2 := f.fresh()
	if err := f.unmarshal(b2, v2); err != nil {
		return viol(f.sig("accepted-remarshal-undecodable"), "%s: Unmarshal accepted the document, but what Marshal writes for the value is rejected: %v\ndocument: %s\nre-marshaled: %s", what, err, jxShow(doc), jxShow(b2))
	}
	b3, err := f.marshal(v2)
	if err != nil || !bytes.Equal(b2, b3) {
		return viol(f.sig("accepted-not-fixpoint"), "%s: Marshal(Unmarshal(Marshal(v))) != Marshal(v) for the value v read from the document (err=%v)\ndocument: %s\nfirst:  %s\nsecond: %s", what, err, jxShow(doc), jxShow(b2), jxShow(b3))
	}
	return nil
}

// jxRun runs the control arm on orig (a pointer to a generated value) or on
// the hand-written document raw, then the fault arm on the document.
func jxRun(c *Ctx, f *jxFormat, orig interface{}, raw []byte) *Violation {
	c.Declare("truncated_document_accepted", "damaged_document_accepted", "handwritten_document_accepted", "typed_value_roundtrip", "handwritten_document")
	c.Instance["type"] = f.scen + "." + f.typ
	doc := raw
	if orig != nil {
		if v := c.Guard(f.typ+"/control", func() string { return fmt.Sprintf("round trip of %+v", orig) }, func() *Violation {
			before := fmt.Sprintf("%#v", orig) // (jxDump would marshal)
			b1, err := f.marshal(orig)
			if err != nil {
				return viol(f.sig("marshal"), "Marshal of a generated value fails: %v\nvalue: %+v", err, orig)
			}
			// encoding reads the value: what is decoded later is compared with
			// the value as it was handed in, not with what Marshal left of it
			c.Oracle("marshal-leaves-value-unchanged")
			if after := fmt.Sprintf("%#v", orig); after != before {
				return viol(f.sig("marshal-changes-value"), "Marshal changed the value it was given\nbefore: %s\nafter:  %s", before, after)
			}
			doc = b1
			c.Case("control", true, hashBytes(b1))
			c.Probe("typed_value_roundtrip", 1)
			c.Oracle("marshal-by-value")
			if bv, err := f.marshal(reflect.ValueOf(orig).Elem().Interface()); err != nil || !bytes.Equal(bv, b1) {
				return viol(f.sig("marshal-by-value"), "Marshal(v) and Marshal(&v) differ (err=%v)\n&v: %s\n v: %s", err, jxShow(b1), jxShow(bv))
			}
			v1 := f.fresh()
			c.Oracle("roundtrip")
			if err := f.unmarshal(b1, v1); err != nil {
				return viol(f.sig("roundtrip-unmarshal"), "Unmarshal rejects the output of Marshal: %v\ndocument: %s", err, jxShow(b1))
			}
			if f.expect != nil {
				f.expect(orig)
			}
			if !reflect.DeepEqual(orig, v1) {
				return viol(f.sig("roundtrip-value"), "Unmarshal(Marshal(v)) != v\ndocument: %s\nv:    %s\nback: %s", jxShow(b1), jxDump(orig), jxDump(v1))
			}
			b2, err := f.marshal(v1)
			if err != nil || !bytes.Equal(b1, b2) {
				return viol(f.sig("roundtrip-bytes"), "Marshal(Unmarshal(Marshal(v))) != Marshal(v) (err=%v)\nfirst:  %s\nsecond: %s", err, jxShow(b1), jxShow(b2))
			}
			return nil
		}); v != nil {
			return v
		}
	} else {
		c.Probe("handwritten_document", 1)
		if v := c.Guard(f.typ+"/control", func() string { return "hand-written document " + jxShow(raw) }, func() *Violation {
			c.Case("control", true, hashBytes(raw))
			return jxAccepted(c, f, "handwritten", "hand-written document", raw)
		}); v != nil {
			return v
		}
	}
	if doc == nil {
		return nil
	}
	c.Instance["document"] = string(doc)
	hd := hashBytes(doc)
	for k := 0; k < len(doc); k++ {
		d, kk := doc[:k], k
		if v := c.Guard(f.typ+"/truncated", func() string { return fmt.Sprintf("document truncated to %d of %d bytes: %s", kk, len(doc), jxShow(d)) }, func() *Violation {
			c.Case("eof@k", true, hd, uint64(kk))
			c.Oracle("truncated-rejected")
			if err := f.unmarshal(d, f.fresh()); err == nil {
				c.Probe("truncated_document_accepted", 1)
				return viol(f.sig("truncated-accepted"), "Unmarshal returned nil for a document truncated to %d of %d bytes: %s", kk, len(doc), jxShow(d))
			}
			return nil
		}); v != nil {
			return v
		}
	}
	for pos := 0; pos < len(doc); pos++ {
		for _, b := range jxSubs {
			d := simio.Set(doc, pos, b)
			p, bb := pos, b
			what := fmt.Sprintf("byte %d of %d changed %#02x -> %#02x", p, len(doc), doc[p], bb)
			if v := c.Guard(f.typ+"/substituted", func() string { return what + ": " + jxShow(d) }, func() *Violation {
				c.Case("set(byte)", doc[p] != bb, hd, uint64(p), uint64(bb))
				return jxAccepted(c, f, "damaged", what, d)
			}); v != nil {
				return v
			}
		}
	}
	c.agg.Exhaustive[f.scen+"/substitution_bytes_per_position"] = int64(len(jxSubs))
	return nil
}

func jxDump(v interface{}) string {
	b, err := json.Marshal(v)
	if err != nil {
		return fmt.Sprintf("%+v", v)
	}
	return fmt.Sprintf("%#v (as JSON: %s)", v, b)
}

// ---- generators ----

var jxJSONStrings = []string{"a", "", "n1", "label", "with space", `quo"te`, `back\slash`, `\"`, "tab\tnl\n", "é", "日本語", "😀",
	" ", "<b>&amp;</b>", "\x00\x1f", "\u007f", "/", "'", "{}[]:,", "null", "true", "1e5", "\ufffd", "id", "source"}

var jxXMLStrings = []string{"a", "", "n1", "Hello", "with space", `quo"te`, "ap'os", "<tag>", "a&b", "&amp;", "]]>", "é", "日本語", "😀",
	"tab\tnl\ncr\r", " lead", "trail ", "\u0085", " ", "\ufffd", "--", "<!-- c -->", "<?x?>", "1.2", "\\"}

func jxStr(t *simrt.Tape, pal []string) string {
	s := pal[t.Choose(simrt.KValue, len(pal))]
	if t.Choose(simrt.KValue, 4) == 3 {
		s += pal[t.Choose(simrt.KValue, len(pal))]
	}
	return s
}

// jxID draws a short identifier (mostly plain, sometimes a hard string).
func jxID(t *simrt.Tape, pal []string, i int) string {
	switch t.Choose(simrt.KValue, 8) {
	case 5, 6:
		return jxStr(t, pal)
	case 7:
		// the empty identifier is legal everywhere and is where omitempty
		// tags and "is the key present" tests disagree
		return ""
	}
	return "n" + strconv.Itoa(i)
}

var jxFloats = []float64{0, 1, -1, 1.5, 1e21, 1e-7, 123456789, 1.7976931348623157e308, 5e-324, -2.5e-3, 9007199254740993}

// attribute keys: never exactly one of the hoisted keys
var jxKeys = []string{"label", "weight", "x", "y", "size", "color", "Id", "ID ", `a"b`, `k\`, "é", "", "<k>", "data", "Source", "parents"}

func jxVal(t *simrt.Tape, depth int) interface{} {
	k := t.Choose(simrt.KValue, 7)
	if depth >= 2 && (k == 4 || k == 5) {
		k = 0
	}
	switch k {
	case 0:
		return jxStr(t, jxJSONStrings)
	case 1:
		return jxFloats[t.Choose(simrt.KValue, len(jxFloats))]
	case 2:
		return t.Choose(simrt.KValue, 2) == 1
	case 3:
		return nil
	case 4:
		a := []interface{}{}
		for i, n := 0, t.Choose(simrt.KValue, 3); i < n; i++ {
			a = append(a, jxVal(t, depth+1))
		}
		return a
	case 5:
		m := map[string]interface{}{}
		for i, n := 0, t.Choose(simrt.KValue, 3); i < n; i++ {
			m[jxKeys[t.Choose(simrt.KValue, len(jxKeys))]] = jxVal(t, depth+1)
		}
		return m
	}
	return strconv.Itoa(t.Choose(simrt.KValue, 1000))
}

// jxAttrs draws nil or a non-empty attribute map.
func jxAttrs(t *simrt.Tape) map[string]interface{} {
	n := t.Choose(simrt.KWorkload, 4)
	if n == 0 {
		return nil
	}
	m := map[string]interface{}{}
	for i := 0; i < n; i++ {
		m[jxKeys[t.Choose(simrt.KValue, len(jxKeys))]] = jxVal(t, 0)
	}
	return m
}

// jxAttrsReserved is jxAttrs plus, one time in three, an attribute named like
// one of the format's fixed fields. The fixed field wins on output (the
// attribute is dropped, also from the caller's map, which is why another
// attribute always accompanies it: the map must not become empty), so the
// value still round-trips, and the fixed fields must not be replaced.
func init() {
	// an attribute named like a fixed field cannot be told from the field in
	// the document: the field wins and the attribute is not read back
	jxSigma.expect = func(v interface{}) {
		g := v.(*sigmajs.Graph)
		for i := range g.Nodes {
			delete(g.Nodes[i].Attributes, "id")
		}
		for i := range g.Edges {
			for _, k := range []string{"id", "source", "target"} {
				delete(g.Edges[i].Attributes, k)
			}
		}
	}
}

func jxAttrsReserved(t *simrt.Tape, reserved []string) map[string]interface{} {
	m := jxAttrs(t)
	if m != nil && t.Choose(simrt.KWorkload, 3) == 2 {
		m["zz-other"] = 1.0
		m[reserved[t.Choose(simrt.KValue, len(reserved))]] = jxVal(t, 1)
	}
	return m
}

// jxAttrsAlso is jxAttrs plus, one time in three, an attribute whose name is a
// fixed field of a SIBLING type but an ordinary attribute for this one
// ("source" on a node, "parent" on an edge): it must survive like any other.
func jxAttrsAlso(t *simrt.Tape, legit []string) map[string]interface{} {
	m := jxAttrs(t)
	if t.Choose(simrt.KWorkload, 3) == 2 {
		if m == nil {
			m = map[string]interface{}{}
		}
		m[legit[t.Choose(simrt.KValue, len(legit))]] = jxVal(t, 1)
	}
	return m
}

func jxOpt(t *simrt.Tape, n int) bool { return t.Choose(simrt.KWorkload, n) == n-1 }

func jxCytoPos(t *simrt.Tape) *cytoscapejs.Position {
	if !jxOpt(t, 3) {
		return nil
	}
	return &cytoscapejs.Position{X: jxFloats[t.Choose(simrt.KValue, len(jxFloats))], Y: jxFloats[t.Choose(simrt.KValue, len(jxFloats))]}
}

func jxScratch(t *simrt.Tape) interface{} {
	if !jxOpt(t, 4) {
		return nil
	}
	return jxVal(t, 1)
}

func jxLayoutStyle(t *simrt.Tape) (interface{}, []interface{}) {
	var layout interface{}
	var style []interface{}
	if jxOpt(t, 3) {
		layout = map[string]interface{}{"name": jxStr(t, jxJSONStrings), "padding": jxFloats[t.Choose(simrt.KValue, len(jxFloats))]}
	}
	if jxOpt(t, 3) {
		style = []interface{}{map[string]interface{}{"selector": "node", "style": map[string]interface{}{"content": "data(" + jxStr(t, jxJSONStrings) + ")"}}}
	}
	return layout, style
}

// exotic JSON values for the hoisted keys in hand-written documents
var jxExotic = []string{`"a"`, `1`, `1.5`, `true`, `null`, `[1,2]`, `{"k":"v"}`, `"A😀"`, `1e3`, `-0`, `12345678901234567890`, `""`, `"\ud800"`, `[]`, `{}`, `false`, `"<nil>"`}

func jxExo(t *simrt.Tape) string { return jxExotic[t.Choose(simrt.KValue, len(jxExotic))] }

// jxRawData writes a data container by hand: keys in tape-chosen presence,
// exotic values, sometimes duplicated keys.
func jxRawData(t *simrt.Tape, keys []string) string {
	var parts []string
	for _, k := range keys {
		switch t.Choose(simrt.KWorkload, 24) {
		case 22: // missing
			continue
		case 23: // duplicated
			parts = append(parts, fmt.Sprintf("%q:%s", k, jxExo(t)))
		}
		parts = append(parts, fmt.Sprintf("%q:%s", k, jxExo(t)))
	}
	for i, n := 0, t.Choose(simrt.KWorkload, 3); i < n; i++ {
		key, _ := json.Marshal(jxKeys[t.Choose(simrt.KValue, len(jxKeys))])
		val, _ := json.Marshal(jxVal(t, 1))
		parts = append(parts, string(key)+":"+string(val))
	}
	return "{" + strings.Join(parts, ",") + "}"
}

func jxRunCytoscape(c *Ctx) *Violation {
	t := c.T
	form := t.Choose(simrt.KWorkload, 4)
	nn, ne := t.Choose(simrt.KWorkload, 4), t.Choose(simrt.KWorkload, 3)
	switch form {
	case 0, 3:
		g := &cytoscapejs.GraphElem{}
		var deferred *Violation
		var wants []cytoscapejs.ElemType
		for i := 0; i < nn+ne; i++ {
			e := cytoscapejs.Element{Data: cytoscapejs.ElemData{ID: jxID(t, jxJSONStrings, i), Attributes: jxAttrs(t)},
				Selected: jxOpt(t, 4), Selectable: jxOpt(t, 4), Locked: jxOpt(t, 6), Grabbable: jxOpt(t, 6), Scratch: jxScratch(t)}
			want := cytoscapejs.NodeElement
			if i < nn {
				e.Position, e.RenderedPosition = jxCytoPos(t), jxCytoPos(t)
				if jxOpt(t, 3) {
					e.Data.Parent = "n0"
				}
				if jxOpt(t, 3) {
					e.Group = "node"
				}
			} else {
				want = cytoscapejs.EdgeElement
				e.Data.Source, e.Data.Target = "n"+strconv.Itoa(t.Choose(simrt.KValue, nn+1)), "n"+strconv.Itoa(t.Choose(simrt.KValue, nn+1))
				if jxOpt(t, 3) {
					e.Group = "edge"
				}
			}
			if jxOpt(t, 4) {
				e.Classes = jxStr(t, jxJSONStrings)
			}
			g.Elements = append(g.Elements, e)
			wants = append(wants, want)
		}
		g.Layout, g.Style = jxLayoutStyle(t)
		if v := jxRun(c, jxCytoElem, g, nil); v != nil {
			return v
		}
		// the kind of an element survives the round trip: what was written as
		// an edge reads back as an element whose Type() is EdgeElement
		// ("It returns an error if the Element Group is invalid or does not
		// match the Element Data, or if the Element Data is an incomplete edge")
		if v := c.Guard("GraphElem/element-type", func() string { return fmt.Sprintf("%d elements", len(g.Elements)) }, func() *Violation {
			data, err := json.Marshal(g)
			if err != nil {
				return nil
			}
			var back cytoscapejs.GraphElem
			if err := json.Unmarshal(data, &back); err != nil || len(back.Elements) != len(wants) {
				return nil // reported by the round trip above
			}
			c.Case("control", false, hashBytes(data), 7)
			c.Oracle("element-type-roundtrip")
			for i, e := range back.Elements {
				got, err := e.Type()
				if err != nil || got != wants[i] {
					return viol("cytoscapejs/GraphElem/element-type", "element %d written as %s with group %q reads back with Type() = %v, %v\n%s", i, []string{"a node", "an edge"}[wants[i]], g.Elements[i].Group, got, err, data)
				}
			}
			return nil
		}); v != nil {
			return v
		}
		return deferred
	case 1:
		g := &cytoscapejs.GraphNodeEdge{}
		for i := 0; i < nn; i++ {
			n := cytoscapejs.Node{Data: cytoscapejs.NodeData{ID: jxID(t, jxJSONStrings, i), Attributes: jxAttrsAlso(t, []string{"source", "target"})},
				Position: jxCytoPos(t), RenderedPosition: jxCytoPos(t), Selected: jxOpt(t, 4), Selectable: jxOpt(t, 4), Locked: jxOpt(t, 6), Grabbable: jxOpt(t, 6), Scratch: jxScratch(t)}
			if jxOpt(t, 3) {
				n.Data.Parent = jxID(t, jxJSONStrings, 0)
			}
			if jxOpt(t, 4) {
				n.Classes = jxStr(t, jxJSONStrings)
			}
			g.Elements.Nodes = append(g.Elements.Nodes, n)
		}
		for i := 0; i < ne; i++ {
			e := cytoscapejs.Edge{Data: cytoscapejs.EdgeData{ID: jxID(t, jxJSONStrings, nn+i), Source: jxID(t, jxJSONStrings, 0), Target: jxID(t, jxJSONStrings, 1), Attributes: jxAttrsAlso(t, []string{"parent"})},
				Selected: jxOpt(t, 4), Selectable: jxOpt(t, 4), Scratch: jxScratch(t)}
			if jxOpt(t, 4) {
				e.Classes = jxStr(t, jxJSONStrings)
			}
			g.Elements.Edges = append(g.Elements.Edges, e)
		}
		g.Layout, g.Style = jxLayoutStyle(t)
		return jxRun(c, jxCytoNodeEdge, g, nil)
	}
	// hand-written documents with non-string IDs
	if t.Choose(simrt.KWorkload, 2) == 0 {
		var els []string
		for i := 0; i < 1+nn; i++ {
			els = append(els, `{"data":`+jxRawData(t, []string{"id", "parent"})+`}`)
		}
		for i := 0; i < ne; i++ {
			els = append(els, `{"group":"edges","data":`+jxRawData(t, []string{"id", "source", "target"})+`}`)
		}
		return jxRun(c, jxCytoElem, nil, []byte(`{"elements":[`+strings.Join(els, ",")+`]}`))
	}
	var ns, es []string
	for i := 0; i < 1+nn; i++ {
		ns = append(ns, `{"data":`+jxRawData(t, []string{"id", "parent"})+`}`)
	}
	for i := 0; i < ne; i++ {
		es = append(es, `{"data":`+jxRawData(t, []string{"id", "source", "target"})+`}`)
	}
	return jxRun(c, jxCytoNodeEdge, nil, []byte(`{"elements":{"nodes":[`+strings.Join(ns, ",")+`],"edges":[`+strings.Join(es, ",")+`]}}`))
}

func jxRunSigma(c *Ctx) *Violation {
	t := c.T
	form := t.Choose(simrt.KWorkload, 3)
	nn, ne := t.Choose(simrt.KWorkload, 4), t.Choose(simrt.KWorkload, 4)
	if form != 2 {
		g := &sigmajs.Graph{}
		for i := 0; i < nn; i++ {
			g.Nodes = append(g.Nodes, sigmajs.Node{ID: jxID(t, jxJSONStrings, i), Attributes: jxAttrsReserved(t, []string{"id"})})
		}
		for i := 0; i < ne; i++ {
			g.Edges = append(g.Edges, sigmajs.Edge{ID: jxID(t, jxJSONStrings, nn+i), Source: jxID(t, jxJSONStrings, 0), Target: jxID(t, jxJSONStrings, 1), Attributes: jxAttrsReserved(t, []string{"id", "source", "target"})})
		}
		return jxRun(c, jxSigma, g, nil)
	}
	var ns, es []string
	for i := 0; i < 1+nn; i++ {
		ns = append(ns, jxRawData(t, []string{"id"}))
	}
	for i := 0; i < ne; i++ {
		es = append(es, jxRawData(t, []string{"id", "source", "target"}))
	}
	return jxRun(c, jxSigma, nil, []byte(`{"nodes":[`+strings.Join(ns, ",")+`],"edges":[`+strings.Join(es, ",")+`]}`))
}

// ---- gexf12 ----

func jxXStr(t *simrt.Tape) string { return jxStr(t, jxXMLStrings) }

func jxSpells(t *simrt.Tape, n int) *gexf12.Spells {
	if !jxOpt(t, n) {
		return nil
	}
	s := &gexf12.Spells{}
	for i, k := 0, 1+t.Choose(simrt.KValue, 2); i < k; i++ {
		s.Spells = append(s.Spells, gexf12.Spell{Start: strconv.Itoa(i), End: jxXStr(t)})
	}
	return s
}

func jxColor(t *simrt.Tape) *gexf12.Color {
	if !jxOpt(t, 6) {
		return nil
	}
	return &gexf12.Color{R: byte(t.Choose(simrt.KValue, 256)), G: byte(t.Choose(simrt.KValue, 256)), B: 255, A: []float64{0, 0.5, 1}[t.Choose(simrt.KValue, 3)], Spells: jxSpells(t, 4)}
}

func jxAttValues(t *simrt.Tape) *gexf12.AttValues {
	if !jxOpt(t, 5) {
		return nil
	}
	a := &gexf12.AttValues{}
	for i, k := 0, t.Choose(simrt.KValue, 3); i < k; i++ {
		a.AttValues = append(a.AttValues, gexf12.AttValue{For: strconv.Itoa(i), Value: jxXStr(t), Start: jxXMLStrings[t.Choose(simrt.KValue, 2)]})
	}
	return a
}

func jxGexfNode(t *simrt.Tape, i, depth int) gexf12.Node {
	n := gexf12.Node{ID: jxID(t, jxXMLStrings, i), Label: jxXStr(t), AttValues: jxAttValues(t), Spells: jxSpells(t, 8), Color: jxColor(t)}
	if jxOpt(t, 6) {
		n.Position = &gexf12.Position{X: jxFloats[t.Choose(simrt.KValue, len(jxFloats))], Y: -1.5, Z: 0}
	}
	if jxOpt(t, 6) {
		n.Size = &gexf12.Size{Value: jxFloats[t.Choose(simrt.KValue, len(jxFloats))], Spells: jxSpells(t, 3)}
	}
	if jxOpt(t, 6) {
		n.Shape = &gexf12.NodeShape{Shape: []string{"disc", "image", ""}[t.Choose(simrt.KValue, 3)], URI: jxXStr(t), Spells: jxSpells(t, 4)}
	}
	if jxOpt(t, 5) {
		n.ParentID = jxXStr(t)
	}
	if jxOpt(t, 5) {
		n.Parents = &gexf12.Parents{Parents: []gexf12.Parent{{For: jxXStr(t)}}}
	}
	if depth == 0 && jxOpt(t, 6) {
		n.Nodes = &gexf12.Nodes{Nodes: []gexf12.Node{jxGexfNode(t, i+10, 1)}}
		if jxOpt(t, 2) {
			n.Edges = &gexf12.Edges{Count: 1, Edges: []gexf12.Edge{{ID: "e", Source: "a", Target: "b"}}}
		}
	}
	return n
}

func jxRunGexf(c *Ctx) *Violation {
	t := c.T
	g := &gexf12.Content{XMLName: xml.Name{Space: "http://www.gexf.net/1.2draft", Local: "gexf"}, Version: "1.2"}
	if jxOpt(t, 4) {
		g.Variant = jxXStr(t)
	}
	if jxOpt(t, 3) {
		g.Meta = &gexf12.Meta{Creator: jxXStr(t), Keywords: jxXStr(t), Description: jxXStr(t)}
		if !jxOpt(t, 3) {
			g.Meta.LastModified = time.Date(1+t.Choose(simrt.KValue, 9999), time.Month(1+t.Choose(simrt.KValue, 12)), 1+t.Choose(simrt.KValue, 28), 0, 0, 0, 0, time.UTC)
		}
	}
	gr := &g.Graph
	gr.DefaultEdgeType = []string{"", "directed", "undirected", "mutual"}[t.Choose(simrt.KValue, 4)]
	gr.Mode = []string{"", "static", "dynamic"}[t.Choose(simrt.KValue, 3)]
	if jxOpt(t, 4) {
		gr.IDType, gr.TimeFormat, gr.Start, gr.EndOpen = "string", "date", jxXStr(t), jxXStr(t)
	}
	for i, k := 0, t.Choose(simrt.KWorkload, 2); i < k; i++ {
		as := gexf12.Attributes{Class: []string{"node", "edge", ""}[t.Choose(simrt.KValue, 3)], Mode: gr.Mode}
		for j, m := 0, t.Choose(simrt.KWorkload, 3); j < m; j++ {
			as.Attributes = append(as.Attributes, gexf12.Attribute{ID: strconv.Itoa(j), Title: jxXStr(t), Type: []string{"string", "float", "liststring", ""}[t.Choose(simrt.KValue, 4)], Default: jxXStr(t), Options: jxXStr(t)})
		}
		gr.Attributes = append(gr.Attributes, as)
	}
	nn, ne := t.Choose(simrt.KWorkload, 3), t.Choose(simrt.KWorkload, 2)
	for i := 0; i < nn; i++ {
		gr.Nodes.Nodes = append(gr.Nodes.Nodes, jxGexfNode(t, i, 0))
	}
	if jxOpt(t, 2) {
		gr.Nodes.Count = nn
	}
	for i := 0; i < ne; i++ {
		e := gexf12.Edge{ID: jxID(t, jxXMLStrings, i), Source: jxID(t, jxXMLStrings, 0), Target: jxID(t, jxXMLStrings, 1), AttValues: jxAttValues(t), Spells: jxSpells(t, 8), Color: jxColor(t),
			Weight: []float64{0, 1, 2.5, -1e-9, 1e300}[t.Choose(simrt.KValue, 5)], Type: gr.DefaultEdgeType}
		if jxOpt(t, 4) {
			e.Label = jxXStr(t)
		}
		if jxOpt(t, 6) {
			e.Thickness = &gexf12.Thickness{Value: jxFloats[t.Choose(simrt.KValue, len(jxFloats))], Spells: jxSpells(t, 3)}
		}
		if jxOpt(t, 6) {
			e.Shape = &gexf12.Edgeshape{Shape: []string{"solid", "dotted", ""}[t.Choose(simrt.KValue, 3)], Spells: jxSpells(t, 4), End: jxXStr(t)}
		}
		gr.Edges.Edges = append(gr.Edges.Edges, e)
	}
	if jxOpt(t, 2) {
		gr.Edges.Count = ne
	}
	// xsd:date carries a calendar date: a LastModified in any time zone and at
	// any time of day must come back as the same calendar date (in its own
	// location) - then the rest of the round trip is checked on the
	// normalised value
	if g.Meta != nil && !g.Meta.LastModified.IsZero() && jxOpt(t, 2) {
		off := []int{10 * 3600, -5 * 3600, 14 * 3600, -12 * 3600, 5*3600 + 1800}[t.Choose(simrt.KValue, 5)]
		y, m, d := g.Meta.LastModified.Date()
		zoned := time.Date(y, m, d, t.Choose(simrt.KValue, 24), t.Choose(simrt.KValue, 60), 0, 0, time.FixedZone("", off))
		g.Meta.LastModified = zoned
		if v := c.Guard("Content/date", func() string { return zoned.String() }, func() *Violation {
			b, err := jxGexf.marshal(g)
			if err != nil {
				return viol(jxGexf.sig("marshal"), "Marshal of a value with LastModified=%v fails: %v", zoned, err)
			}
			back := jxGexf.fresh()
			if err := jxGexf.unmarshal(b, back); err != nil {
				return viol(jxGexf.sig("roundtrip-unmarshal"), "Unmarshal rejects the output of Marshal: %v", err)
			}
			c.Case("control", true, hashBytes(b), 77)
			c.Oracle("date-roundtrip")
			bm := back.(*gexf12.Content).Meta
			if bm == nil {
				return viol(jxGexf.sig("date-roundtrip"), "Meta lost in the round trip")
			}
			y2, m2, d2 := bm.LastModified.Date()
			if y2 != y || m2 != m || d2 != d {
				return viol(jxGexf.sig("date-roundtrip"), "LastModified %v (calendar date %04d-%02d-%02d in its own location) comes back as %04d-%02d-%02d", zoned, y, m, d, y2, m2, d2)
			}
			return nil
		}); v != nil {
			return v
		}
		g.Meta.LastModified = time.Date(y, m, d, 0, 0, 0, 0, time.UTC)
	}
	return jxRun(c, jxGexf, g, nil)
}
