package main

import (
	"bytes"
	"fmt"
	"sort"
	"strconv"
	"strings"
	"unicode/utf8"

	"gonum.org/v1/gonum/graph"
	"gonum.org/v1/gonum/graph/encoding"
	"gonum.org/v1/gonum/graph/encoding/dot"
	fdot "gonum.org/v1/gonum/graph/formats/dot"
	"gonum.org/v1/gonum/graph/iterator"
	"gonum.org/v1/gonum/graph/multi"
	"gonum.org/v1/gonum/graph/simple"
	"verif/simio"
	"verif/simrt"
)

// 6.x DOT text form (graph/encoding/dot over graph/formats/dot).
//
// Documented behaviour relied on (paths under /repo/graph):
//
//   encoding/dot/doc.go:14-20       "Attributes and IDs are quoted if needed during marshalling ... Quoted IDs and
//                                   attributes are unquoted during unmarshaling"; quoted text "<...>" stays quoted
//   encoding/dot/encode.go:86-96    Marshal; "Attributes and IDs are quoted if needed during marshalling";
//                                   name overrides DOTID, DOTID is used when name is empty
//   encoding/dot/encode.go:20-32    Node.DOTID: an ID is an identifier, a numeral, a double-quoted string
//                                   or an HTML string
//   encoding/dot/encode.go:40-52    Porter: port and compass of the two ends of an edge
//   encoding/dot/encode.go:599-613  quoteID: "If s is already quoted, or if s does not contain any spaces
//                                   or special characters that need escaping, the original string is returned"
//   encoding/dot/decode.go:43-48    Unmarshal; "Attributes and IDs are unquoted during unmarshalling if
//                                   appropriate"; error if the number of graphs is not one
//   encoding/dot/decode.go:520-528  unquoteID keeps "<...>" in quotes "to make round-trips idempotent"
//   formats/dot/internal/dot.bnf    token grammar (string, HTML and numeral literals, ports)
//   formats/dot/internal/astx/astx.go:249-275  a lone ":ID" after a node is a compass point if ID is one
//   simple/directed.go:188-190      simple.SetEdge panics on self loops: the harness builders accept them
//
// Restrictions on generated IDs / attribute keys / values / ports (dotRepresentable):
//
//   R1 a string that is itself a valid double-quoted literal ("...") is "already quoted" for the encoder
//      (encode.go:599-601, 653-659): it is written verbatim and hence read back without its quotes. Such
//      strings do not denote themselves and are not generated.
//   R2 a string of the form <...> is an HTML string for the encoder (encode.go:30, 664-668) and written
//      verbatim; the token grammar (dot.bnf, _html_lit, as generated) accepts one level of nested,
//      non-empty <tag>s and no NUL. Only such strings are generated in the <...> form; a quoted
//      "<...>" keeps its quotes on decoding by design (decode.go: unquoteID), so other <...> strings
//      have no representation that reads back as themselves.
//   R3 compass points are written verbatim (encode.go:323-332) and must be one of the ten DOT compass
//      points (encode.go:40-43 "compass corresponds to DOT compass point"); a port without a compass point
//      must not itself spell a compass point (astx.go:250-267, the DOT grammar's own ambiguity).
//   R4 node IDs are unique within a graph (DOT identifies nodes by ID).

// ---- harness graph types ----

type dotAttrList struct{ list []encoding.Attribute }

func (a *dotAttrList) Attributes() []encoding.Attribute { return a.list }
func (a *dotAttrList) SetAttribute(at encoding.Attribute) error {
	a.list = append(a.list, at)
	return nil
}

// dotHNode is a node with a DOT ID and attributes.
type dotHNode struct {
	id    int64
	name  string
	named bool // SetDOTID was called (or the harness named it)
	owner interface{}
	dotAttrList
}

func (n *dotHNode) ID() int64         { return n.id }
func (n *dotHNode) DOTID() string     { return n.name }
func (n *dotHNode) SetDOTID(s string) { n.name, n.named = s, true }

// dotHEdge is an edge or a line with attributes and ports.
type dotHEdge struct {
	f, t           graph.Node
	uid            int64
	fp, fc, tp, tc string
	dotAttrList
}

func (e *dotHEdge) From() graph.Node { return e.f }
func (e *dotHEdge) To() graph.Node   { return e.t }
func (e *dotHEdge) ID() int64        { return e.uid }
func (e *dotHEdge) reversed() *dotHEdge {
	r := &dotHEdge{f: e.t, t: e.f, uid: e.uid, fp: e.tp, fc: e.tc, tp: e.fp, tc: e.fc}
	r.list = append([]encoding.Attribute(nil), e.list...)
	return r
}
func (e *dotHEdge) ReversedEdge() graph.Edge               { return e.reversed() }
func (e *dotHEdge) ReversedLine() graph.Line               { return e.reversed() }
func (e *dotHEdge) FromPort() (string, string)             { return e.fp, e.fc }
func (e *dotHEdge) ToPort() (string, string)               { return e.tp, e.tc }
func (e *dotHEdge) SetFromPort(port, compass string) error { e.fp, e.fc = port, compass; return nil }
func (e *dotHEdge) SetToPort(port, compass string) error   { e.tp, e.tc = port, compass; return nil }

// dotCommon carries the graph ID and the global attributes.
type dotCommon struct {
	name          string
	ga, na, ea    dotAttrList
	setIDCalls    int
	foreignOnEdge int // SetEdge/SetLine calls with an endpoint that is not the graph's node of that ID
}

func (c *dotCommon) DOTID() string     { return c.name }
func (c *dotCommon) SetDOTID(s string) { c.name = s; c.setIDCalls++ }
func (c *dotCommon) DOTAttributers() (g, n, e encoding.Attributer) {
	return &c.ga, &c.na, &c.ea
}
func (c *dotCommon) DOTAttributeSetters() (g, n, e encoding.AttributeSetter) {
	return &c.ga, &c.na, &c.ea
}

func dotSortNodes(ns []graph.Node) []graph.Node {
	sort.Slice(ns, func(i, j int) bool { return ns[i].ID() < ns[j].ID() })
	return ns
}

func dotNodesIter(ns []graph.Node) graph.Nodes {
	if len(ns) == 0 {
		return graph.Empty
	}
	return iterator.NewOrderedNodes(dotSortNodes(ns))
}

// dotSD is simple.DirectedGraph plus self loops.
type dotSD struct {
	*simple.DirectedGraph
	*dotCommon
	self map[int64]graph.Edge
	subs []dot.Graph
}

func newDotSD() *dotSD {
	return &dotSD{DirectedGraph: simple.NewDirectedGraph(), dotCommon: &dotCommon{}, self: map[int64]graph.Edge{}}
}
func (g *dotSD) Structure() []dot.Graph { return g.subs }
func (g *dotSD) NewNode() graph.Node {
	return &dotHNode{id: g.DirectedGraph.NewNode().ID(), owner: g}
}
func (g *dotSD) NewEdge(from, to graph.Node) graph.Edge { return &dotHEdge{f: from, t: to} }
func (g *dotSD) SetEdge(e graph.Edge) {
	f, t := e.From(), e.To()
	if g.DirectedGraph.Node(f.ID()) != f || g.DirectedGraph.Node(t.ID()) != t {
		g.foreignOnEdge++
	}
	if f.ID() == t.ID() {
		if g.DirectedGraph.Node(f.ID()) == nil {
			g.DirectedGraph.AddNode(f)
		}
		g.self[f.ID()] = e
		return
	}
	g.DirectedGraph.SetEdge(e)
}
func (g *dotSD) From(id int64) graph.Nodes {
	ns := graph.NodesOf(g.DirectedGraph.From(id))
	if _, ok := g.self[id]; ok {
		ns = append(ns, g.DirectedGraph.Node(id))
	}
	return dotNodesIter(ns)
}
func (g *dotSD) To(id int64) graph.Nodes {
	ns := graph.NodesOf(g.DirectedGraph.To(id))
	if _, ok := g.self[id]; ok {
		ns = append(ns, g.DirectedGraph.Node(id))
	}
	return dotNodesIter(ns)
}
func (g *dotSD) Edge(u, v int64) graph.Edge {
	if u == v {
		if e, ok := g.self[u]; ok {
			return e
		}
		return nil
	}
	return g.DirectedGraph.Edge(u, v)
}
func (g *dotSD) HasEdgeBetween(x, y int64) bool {
	if x == y {
		_, ok := g.self[x]
		return ok
	}
	return g.DirectedGraph.HasEdgeBetween(x, y)
}
func (g *dotSD) HasEdgeFromTo(u, v int64) bool {
	if u == v {
		_, ok := g.self[u]
		return ok
	}
	return g.DirectedGraph.HasEdgeFromTo(u, v)
}

// dotSU is simple.UndirectedGraph plus self loops.
type dotSU struct {
	*simple.UndirectedGraph
	*dotCommon
	self map[int64]graph.Edge
	subs []dot.Graph
}

func newDotSU() *dotSU {
	return &dotSU{UndirectedGraph: simple.NewUndirectedGraph(), dotCommon: &dotCommon{}, self: map[int64]graph.Edge{}}
}
func (g *dotSU) Structure() []dot.Graph { return g.subs }
func (g *dotSU) NewNode() graph.Node {
	return &dotHNode{id: g.UndirectedGraph.NewNode().ID(), owner: g}
}
func (g *dotSU) NewEdge(from, to graph.Node) graph.Edge { return &dotHEdge{f: from, t: to} }
func (g *dotSU) SetEdge(e graph.Edge) {
	f, t := e.From(), e.To()
	if g.UndirectedGraph.Node(f.ID()) != f || g.UndirectedGraph.Node(t.ID()) != t {
		g.foreignOnEdge++
	}
	if f.ID() == t.ID() {
		if g.UndirectedGraph.Node(f.ID()) == nil {
			g.UndirectedGraph.AddNode(f)
		}
		g.self[f.ID()] = e
		return
	}
	g.UndirectedGraph.SetEdge(e)
}
func (g *dotSU) From(id int64) graph.Nodes {
	ns := graph.NodesOf(g.UndirectedGraph.From(id))
	if _, ok := g.self[id]; ok {
		ns = append(ns, g.UndirectedGraph.Node(id))
	}
	return dotNodesIter(ns)
}
func (g *dotSU) Edge(u, v int64) graph.Edge { return g.EdgeBetween(u, v) }
func (g *dotSU) EdgeBetween(u, v int64) graph.Edge {
	if u == v {
		if e, ok := g.self[u]; ok {
			return e
		}
		return nil
	}
	return g.UndirectedGraph.EdgeBetween(u, v)
}
func (g *dotSU) HasEdgeBetween(x, y int64) bool {
	if x == y {
		_, ok := g.self[x]
		return ok
	}
	return g.UndirectedGraph.HasEdgeBetween(x, y)
}

// dotMD and dotMU wrap the multigraphs (which accept self loops).
type dotMD struct {
	*multi.DirectedGraph
	*dotCommon
	subs []dot.Multigraph
}

func newDotMD() *dotMD {
	return &dotMD{DirectedGraph: multi.NewDirectedGraph(), dotCommon: &dotCommon{}}
}
func (g *dotMD) Structure() []dot.Multigraph { return g.subs }
func (g *dotMD) NewNode() graph.Node {
	return &dotHNode{id: g.DirectedGraph.NewNode().ID(), owner: g}
}
func (g *dotMD) NewLine(from, to graph.Node) graph.Line {
	return &dotHEdge{f: from, t: to, uid: g.DirectedGraph.NewLine(from, to).ID()}
}
func (g *dotMD) SetLine(l graph.Line) {
	if g.DirectedGraph.Node(l.From().ID()) != l.From() || g.DirectedGraph.Node(l.To().ID()) != l.To() {
		g.foreignOnEdge++
	}
	g.DirectedGraph.SetLine(l)
}

type dotMU struct {
	*multi.UndirectedGraph
	*dotCommon
	subs []dot.Multigraph
}

func newDotMU() *dotMU {
	return &dotMU{UndirectedGraph: multi.NewUndirectedGraph(), dotCommon: &dotCommon{}}
}
func (g *dotMU) Structure() []dot.Multigraph { return g.subs }
func (g *dotMU) NewNode() graph.Node {
	return &dotHNode{id: g.UndirectedGraph.NewNode().ID(), owner: g}
}
func (g *dotMU) NewLine(from, to graph.Node) graph.Line {
	return &dotHEdge{f: from, t: to, uid: g.UndirectedGraph.NewLine(from, to).ID()}
}
func (g *dotMU) SetLine(l graph.Line) {
	if g.UndirectedGraph.Node(l.From().ID()) != l.From() || g.UndirectedGraph.Node(l.To().ID()) != l.To() {
		g.foreignOnEdge++
	}
	g.UndirectedGraph.SetLine(l)
}

// dotHSubNode is a node of a simple graph that stands for a subgraph.
type dotHSubNode struct {
	id  int64
	sub dotView
}

func (n *dotHSubNode) ID() int64             { return n.id }
func (n *dotHSubNode) Subgraph() graph.Graph { return n.sub }

// dotHAnonSubNode is a node of a simple graph that stands for a subgraph whose
// graph value has nothing but the topology.
type dotHAnonSubNode struct {
	id  int64
	sub graph.Graph
}

func (n *dotHAnonSubNode) ID() int64             { return n.id }
func (n *dotHAnonSubNode) Subgraph() graph.Graph { return n.sub }

// The multigraph printer tells directed from undirected with a type assertion
// to graph.Directed, so an anonymous multigraph has to keep that method set.
type dotDirMulti interface {
	graph.Directed
	graph.Multigraph
}

type dotUndirMulti interface {
	graph.Undirected
	graph.Multigraph
}

// dotHMultiSubNode is a node of a multigraph that stands for a subgraph.
type dotHMultiSubNode struct {
	id  int64
	sub graph.Multigraph
}

func (n *dotHMultiSubNode) ID() int64                  { return n.id }
func (n *dotHMultiSubNode) Subgraph() graph.Multigraph { return n.sub }

// dotView is what the oracles need from a harness graph.
type dotView interface {
	graph.Graph
	AddNode(graph.Node)
	DOTID() string
	DOTAttributers() (g, n, e encoding.Attributer)
	common() *dotCommon
}

func (c *dotCommon) common() *dotCommon { return c }

type dotLiner interface {
	Lines(u, v int64) graph.Lines
}

var dotKinds = []string{"simple-directed", "simple-undirected", "multi-directed", "multi-undirected"}

func dotNew(kind int) dotView {
	switch kind {
	case 0:
		return newDotSD()
	case 1:
		return newDotSU()
	case 2:
		return newDotMD()
	}
	return newDotMU()
}

func dotCodec(kind int) string {
	if kind >= 2 {
		return "multi"
	}
	return "simple"
}

func dotMarshal(g dotView, name, prefix, indent string) ([]byte, error) {
	if mg, ok := g.(graph.Multigraph); ok {
		if _, isMulti := g.(dotLiner); isMulti {
			return dot.MarshalMulti(mg, name, prefix, indent)
		}
	}
	return dot.Marshal(g, name, prefix, indent)
}

func dotUnmarshal(data []byte, g dotView) error {
	if mb, ok := g.(encoding.MultiBuilder); ok {
		return dot.UnmarshalMulti(data, mb)
	}
	return dot.Unmarshal(data, g.(encoding.Builder))
}

// ---- value generation ----

var dotAtoms = []string{"a", "b", "x", "Z", "0", "1", "7", " ", "\"", "\\", "-", ">", "{", "}", "[", "]", ";", ",", "=", "\n", "é",
	"_", ".", ":", "/", "#", "<", "+", "\t", "<b>", "node", "'", "`"}

var dotSpecials = []string{"node", "edge", "graph", "digraph", "subgraph", "strict", "Node", "GRAPH", "sTrIcT",
	"1", "-1", ".5", "1.", "-.5", "1.5", "007", "1e5", "0x1F", "1.2.3", "-", "--", "->", "- >",
	"<b>", "<b>x</b>", "<<i>y</i>>", "<>", "<a b=\"c\">", "\"<b>\"",
	"a b", "a\"b", "\\", "\\\"", "\"", "\"\"", "\"a\"", "a\\", "\\n", "\\N", "a\nb", "\n",
	"n", "ne", "_", "c", "sw", "é", "été", "//", "/*", "/* x */", "#", "a+b", "a:b", "a=b", "[", "]", "{", "}", ";", ",",
	// texts that strconv.Unquote accepts although they are not double-quoted
	"'a'", "'\\n'", "'\"'", "`b c`", "``", "`a`", "'", "`"}

var dotHTML = []string{"<b>", "<b>x</b>", "<<i>y</i>>", "<>", "<a b=\"c\">", "<<table><tr><td>é</td></tr></table>>", "< >", "<\n>", "<->", "<b>-><b>", "<<b>><b>>", "<node>", "<1>"}

var dotCompass = []string{"", "n", "ne", "e", "se", "s", "sw", "w", "nw", "c", "_"}

func dotIsCompass(s string) bool {
	for _, c := range dotCompass[1:] {
		if s == c {
			return true
		}
	}
	return false
}

// dotRepresentable implements restrictions R1 and R2.
func dotRepresentable(s string) bool {
	if !utf8.ValidString(s) {
		return false
	}
	if len(s) >= 2 && s[0] == '"' && s[len(s)-1] == '"' {
		if _, err := strconv.Unquote(s); err == nil {
			return false // R1
		}
	}
	if len(s) >= 2 && s[0] == '<' && s[len(s)-1] == '>' { // R2
		// what the generated lexer accepts as an HTML string: characters
		// other than NUL, '<', '>' and one level of NON-EMPTY <tag>s (dot.bnf
		// reads as if <> were allowed inside; the generated automaton rejects
		// "<<>>", "<=<>>", ...: see DESIGN 11.0)
		in := s[1 : len(s)-1]
		for i := 0; i < len(in); i++ {
			switch in[i] {
			case 0, '>':
				return false
			case '<':
				j := i + 1
				for j < len(in) && in[j] != 0 && in[j] != '<' && in[j] != '>' {
					j++
				}
				if j == i+1 || j == len(in) || in[j] != '>' {
					return false
				}
				i = j
			}
		}
		return true
	}
	return true
}

func dotDrawString(t *simrt.Tape) string {
	var s string
	switch t.Choose(simrt.KValue, 6) {
	case 0, 1:
		s = string(rune('a' + t.Choose(simrt.KValue, 6)))
	case 2:
		s = dotSpecials[t.Choose(simrt.KValue, len(dotSpecials))]
	case 3:
		s = dotHTML[t.Choose(simrt.KValue, len(dotHTML))]
	default:
		n := t.Choose(simrt.KValue, 7)
		for i := 0; i < n; i++ {
			s += dotAtoms[t.Choose(simrt.KValue, len(dotAtoms))]
		}
	}
	for !dotRepresentable(s) {
		_, size := utf8.DecodeRuneInString(s)
		s = s[size:]
	}
	return s
}

// dotDrawUnique draws a string not yet in used (R4) and records it.
func dotDrawUnique(t *simrt.Tape, used map[string]bool) string {
	s := dotDrawString(t)
	for k := 0; used[s]; k++ {
		s += string(rune('a' + k%26)) // ends in a letter: neither "..." nor <...>
	}
	used[s] = true
	return s
}

func dotDrawAttrs(t *simrt.Tape, max int) []encoding.Attribute {
	n := t.Choose(simrt.KWorkload, max+1)
	var out []encoding.Attribute
	for i := 0; i < n; i++ {
		out = append(out, encoding.Attribute{Key: dotDrawString(t), Value: dotDrawString(t)})
	}
	return out
}

func dotDrawPort(t *simrt.Tape) (port, compass string) {
	switch t.Choose(simrt.KWorkload, 4) {
	case 0:
		return "", ""
	case 1:
		port = dotDrawString(t)
	case 2:
		compass = dotCompass[1+t.Choose(simrt.KValue, len(dotCompass)-1)]
	default:
		port = dotDrawString(t)
		compass = dotCompass[1+t.Choose(simrt.KValue, len(dotCompass)-1)]
	}
	if port != "" && t.Choose(simrt.KValue, 4) == 3 {
		// a port (record field) may be named like a compass point
		port = dotCompass[1+t.Choose(simrt.KValue, len(dotCompass)-1)]
	}
	if compass == "" && dotIsCompass(port) { // R3
		compass = "c"
	}
	return port, compass
}

// ---- description of a labelled graph ----

func dotAttrDesc(attrs []encoding.Attribute) string {
	var kv []string
	for _, a := range attrs {
		kv = append(kv, strconv.Quote(a.Key)+"="+strconv.Quote(a.Value))
	}
	sort.Strings(kv)
	return "[" + strings.Join(kv, " ") + "]"
}

func dotEndDesc(id, port, compass string) string {
	return strconv.Quote(id) + ":" + strconv.Quote(port) + ":" + strconv.Quote(compass)
}

func dotEdgeDesc(directed bool, a, b string, attrs []encoding.Attribute) string {
	op := " -> "
	if !directed {
		op = " -- "
		if b < a {
			a, b = b, a
		}
	}
	return "edge " + a + op + b + " " + dotAttrDesc(attrs)
}

func dotNodeName(n graph.Node) string {
	if dn, ok := n.(dot.Node); ok {
		return dn.DOTID()
	}
	return fmt.Sprint(n.ID())
}

func dotAttrsOf(x interface{}) []encoding.Attribute {
	if a, ok := x.(encoding.Attributer); ok {
		return a.Attributes()
	}
	return nil
}

func dotHeaderDesc(name string, directed bool, ga, na, ea []encoding.Attribute) []string {
	return []string{fmt.Sprintf("graph %q directed=%v", name, directed),
		"graph-attributes " + dotAttrDesc(ga), "node-attributes " + dotAttrDesc(na), "edge-attributes " + dotAttrDesc(ea)}
}

// dotDescribe renders g, through the graph API only, as a sorted list of
// labelled items: what a reader of the graph sees.
func dotDescribe(g dotView) []string {
	_, directed := g.(graph.Directed)
	ga, na, ea := g.DOTAttributers()
	out := dotHeaderDesc(g.DOTID(), directed, ga.Attributes(), na.Attributes(), ea.Attributes())
	nodes := dotSortNodes(graph.NodesOf(g.Nodes()))
	var items []string
	for _, n := range nodes {
		items = append(items, "node "+strconv.Quote(dotNodeName(n))+" "+dotAttrDesc(dotAttrsOf(n)))
	}
	one := func(u graph.Node, e interface {
		From() graph.Node
		To() graph.Node
	}) {
		var fp, fc, tp, tc string
		if p, ok := e.(dot.Porter); ok {
			fp, fc = p.FromPort()
			tp, tc = p.ToPort()
		}
		items = append(items, dotEdgeDesc(directed, dotEndDesc(dotNodeName(e.From()), fp, fc), dotEndDesc(dotNodeName(e.To()), tp, tc), dotAttrsOf(e)))
	}
	for _, u := range nodes {
		for _, v := range dotSortNodes(graph.NodesOf(g.From(u.ID()))) {
			if !directed && v.ID() < u.ID() {
				continue
			}
			if lg, ok := g.(dotLiner); ok {
				ls := graph.LinesOf(lg.Lines(u.ID(), v.ID()))
				sort.Slice(ls, func(i, j int) bool { return ls[i].ID() < ls[j].ID() })
				for _, l := range ls {
					one(u, l)
				}
				continue
			}
			if e := g.Edge(u.ID(), v.ID()); e != nil {
				one(u, e)
			} else {
				items = append(items, fmt.Sprintf("edge MISSING %q %q", dotNodeName(u), dotNodeName(v)))
			}
		}
	}
	sort.Strings(items)
	return append(out, items...)
}

func dotDiff(want, got []string) string {
	for i := 0; i < len(want) || i < len(got); i++ {
		var w, g string
		if i < len(want) {
			w = want[i]
		}
		if i < len(got) {
			g = got[i]
		}
		if w != g {
			return fmt.Sprintf("item %d: want %s, got %s (%d vs %d items)", i, dotOrNone(w), dotOrNone(g), len(want), len(got))
		}
	}
	return ""
}

// dotDiffKind names the shape of a round-trip difference, so that a known
// finding (edges of a subgraph end point are dropped) does not hide other
// differences: "edges-missing" = nothing unexpected was read back and
// everything that is missing is an edge.
func dotDiffKind(want, got []string) string {
	have := map[string]int{}
	for _, g := range got {
		have[g]++
	}
	onlyEdges := true
	for _, w := range want {
		if have[w] > 0 {
			have[w]--
			continue
		}
		if !strings.HasPrefix(w, "edge") {
			onlyEdges = false
		}
	}
	for _, n := range have {
		if n > 0 {
			return "other"
		}
	}
	if onlyEdges {
		return "edges-missing"
	}
	return "other"
}

func dotOrNone(s string) string {
	if s == "" {
		return "<nothing>"
	}
	return s
}

// dotClosed checks an accepted decode: every node was created by this
// destination and named by the decoder, every edge reported by the graph
// joins two nodes that the graph contains.
func dotClosed(g dotView) string {
	if n := g.common().foreignOnEdge; n != 0 {
		return fmt.Sprintf("%d edge(s) were set with an end point that had not been added to the graph", n)
	}
	nodes := dotSortNodes(graph.NodesOf(g.Nodes()))
	in := map[graph.Node]bool{}
	for _, n := range nodes {
		hn, ok := n.(*dotHNode)
		if !ok || hn.owner != interface{}(g) {
			return fmt.Sprintf("node %d (%T) was not created by the destination's NewNode", n.ID(), n)
		}
		if !hn.named {
			return fmt.Sprintf("node %d was added without a DOT ID", n.ID())
		}
		if g.Node(n.ID()) != n {
			return fmt.Sprintf("Node(%d) does not return the node listed by Nodes", n.ID())
		}
		in[n] = true
	}
	chk := func(u, v graph.Node, e interface {
		From() graph.Node
		To() graph.Node
	}) string {
		if e == nil {
			return fmt.Sprintf("From(%q) lists %q but there is no edge between them", dotNodeName(u), dotNodeName(v))
		}
		if !in[e.From()] || !in[e.To()] {
			return fmt.Sprintf("edge %q -> %q has an end point that is not a node of the graph", dotNodeName(e.From()), dotNodeName(e.To()))
		}
		return ""
	}
	for _, u := range nodes {
		for _, v := range dotSortNodes(graph.NodesOf(g.From(u.ID()))) {
			if !in[v] {
				return fmt.Sprintf("From(%q) lists node %d which is not in the graph", dotNodeName(u), v.ID())
			}
			if lg, ok := g.(dotLiner); ok {
				ls := graph.LinesOf(lg.Lines(u.ID(), v.ID()))
				if len(ls) == 0 {
					return fmt.Sprintf("From(%q) lists %q but there is no line between them", dotNodeName(u), dotNodeName(v))
				}
				for _, l := range ls {
					if why := chk(u, v, l); why != "" {
						return why
					}
				}
				continue
			}
			e := g.Edge(u.ID(), v.ID())
			if e == nil {
				return chk(u, v, nil)
			}
			if why := chk(u, v, e); why != "" {
				return why
			}
		}
	}
	return ""
}

// ---- workload ----

type dotModelEdge struct {
	f, t           int // node indices
	fp, fc, tp, tc string
	attrs          []encoding.Attribute
}

type dotModel struct {
	kind       int
	name       string
	ga, na, ea []encoding.Attribute
	ids        []int64
	names      []string
	nattrs     [][]encoding.Attribute
	edges      []dotModelEdge
}

func (m *dotModel) describe() []string {
	directed := m.kind%2 == 0
	out := dotHeaderDesc(m.name, directed, m.ga, m.na, m.ea)
	var items []string
	for i, n := range m.names {
		items = append(items, "node "+strconv.Quote(n)+" "+dotAttrDesc(m.nattrs[i]))
	}
	for _, e := range m.edges {
		items = append(items, dotEdgeDesc(directed, dotEndDesc(m.names[e.f], e.fp, e.fc), dotEndDesc(m.names[e.t], e.tp, e.tc), e.attrs))
	}
	sort.Strings(items)
	return append(out, items...)
}

// build materialises the model as a harness graph.
func (m *dotModel) build() (dotView, []graph.Node) {
	g := dotNew(m.kind)
	c := g.common()
	c.ga.list, c.na.list, c.ea.list = m.ga, m.na, m.ea
	nodes := make([]graph.Node, len(m.names))
	for i := range m.names {
		n := &dotHNode{id: m.ids[i], name: m.names[i], named: true, owner: g}
		n.list = m.nattrs[i]
		nodes[i] = n
		g.AddNode(n)
	}
	for _, e := range m.edges {
		he := &dotHEdge{f: nodes[e.f], t: nodes[e.t], fp: e.fp, fc: e.fc, tp: e.tp, tc: e.tc}
		he.list = e.attrs
		switch gg := g.(type) {
		case *dotSD:
			gg.SetEdge(he)
		case *dotSU:
			gg.SetEdge(he)
		case *dotMD:
			he.uid = gg.DirectedGraph.NewLine(he.f, he.t).ID()
			gg.SetLine(he)
		case *dotMU:
			he.uid = gg.UndirectedGraph.NewLine(he.f, he.t).ID()
			gg.SetLine(he)
		}
	}
	return g, nodes
}

func dotDrawModel(c *Ctx, kind, maxNodes, maxEdges int, used map[string]bool, rich bool) *dotModel {
	t := c.T
	m := &dotModel{kind: kind}
	n := t.Choose(simrt.KWorkload, maxNodes+1)
	sparse := t.Choose(simrt.KWorkload, 3) == 2
	for i := 0; i < n; i++ {
		id := int64(i)
		if sparse {
			id = int64(3*i + 5)
		}
		m.ids = append(m.ids, id)
		m.names = append(m.names, dotDrawUnique(t, used))
		var at []encoding.Attribute
		if rich {
			at = dotDrawAttrs(t, 2)
		}
		m.nattrs = append(m.nattrs, at)
	}
	if rich {
		m.ga, m.na, m.ea = dotDrawAttrs(t, 2), dotDrawAttrs(t, 1), dotDrawAttrs(t, 1)
	}
	if n == 0 {
		return m
	}
	ne := t.Choose(simrt.KWorkload, maxEdges+1)
	seen := map[[2]int]bool{}
	for i := 0; i < ne; i++ {
		f, to := t.Choose(simrt.KWorkload, n), t.Choose(simrt.KWorkload, n)
		if kind < 2 { // simple graphs: one edge per (ordered / unordered) pair
			key := [2]int{f, to}
			if kind == 1 && to < f {
				key = [2]int{to, f}
			}
			if seen[key] {
				continue
			}
			seen[key] = true
		}
		e := dotModelEdge{f: f, t: to}
		if rich {
			e.attrs = dotDrawAttrs(t, 2)
			e.fp, e.fc = dotDrawPort(t)
			e.tp, e.tc = dotDrawPort(t)
			if e.fp != "" || e.fc != "" || e.tp != "" || e.tc != "" {
				c.Probe("edges_with_ports", 1)
			}
		}
		if f == to {
			c.Probe("self_loops", 1)
		}
		m.edges = append(m.edges, e)
	}
	return m
}

var dotHostile = []byte{'"', '\\', '{', '}', '[', ']', '-', '>', ';', '\n', 0x00, 0x80, 0xFF}

func init() {
	register(&Scenario{Name: "dot", Run: runDot})
}

func runDot(c *Ctx) *Violation {
	t := c.T
	c.Declare("self_loops", "edges_with_ports", "quoted_ids", "html_ids", "keyword_ids", "numeral_ids", "corrupted_accepted", "truncated_accepted",
		"ast_string_reparse_failed", "structured_graphs", "subgraph_nodes", "accepted_remarshal_ok", "nested_direction_mismatch")
	kind := t.Choose(simrt.KWorkload, 4)
	codec := dotCodec(kind)
	used := map[string]bool{}
	m := dotDrawModel(c, kind, 8, 10, used, true)
	prefix := []string{"", "  ", "\t"}[t.Choose(simrt.KWorkload, 3)]
	indent := []string{"\t", " ", ""}[t.Choose(simrt.KWorkload, 3)]
	// the graph name: via DOTID, via the name parameter, or both (the parameter wins)
	var nameArg, ownName string
	switch t.Choose(simrt.KWorkload, 4) {
	case 0:
	case 1:
		ownName = dotDrawString(t)
		m.name = ownName
	case 2:
		nameArg = dotDrawString(t)
		m.name = nameArg
	default:
		ownName, nameArg = dotDrawString(t), dotDrawString(t)
		m.name = nameArg
		if nameArg == "" {
			m.name = ownName
		}
	}
	src, _ := m.build()
	src.common().name = ownName
	c.Instance["graph"] = fmt.Sprintf("%s, %d nodes, %d edges", dotKinds[kind], len(m.names), len(m.edges))
	for _, s := range m.names {
		switch {
		case strings.HasPrefix(s, "<") && strings.HasSuffix(s, ">") && len(s) >= 2:
			c.Probe("html_ids", 1)
		case len(s) > 0 && (s[0] == '-' || s[0] == '.' || s[0] >= '0' && s[0] <= '9'):
			c.Probe("numeral_ids", 1)
		case strings.EqualFold(s, "node") || strings.EqualFold(s, "edge") || strings.EqualFold(s, "graph") || strings.EqualFold(s, "digraph") || strings.EqualFold(s, "subgraph") || strings.EqualFold(s, "strict"):
			c.Probe("keyword_ids", 1)
		}
	}

	want := m.describe()
	want[0] = fmt.Sprintf("graph %q directed=%v", m.name, kind%2 == 0)
	// harness self check: the wrappers show the model through the graph API
	{
		got := dotDescribe(src)
		got[0] = want[0] // the source carries ownName; the model the effective name
		if d := dotDiff(want, got); d != "" {
			return viol("dot/harness/self-check", "the harness graph does not present its model: %s", d)
		}
	}

	// ---- control arm ----
	var b []byte
	if v := c.Guard(codec+"/roundtrip", func() string { return fmt.Sprintf("%v\n%s", c.Instance["graph"], strings.Join(want, "\n")) }, func() *Violation {
		var err error
		b, err = dotMarshal(src, nameArg, prefix, indent)
		c.Case("control", false, 1)
		if err != nil {
			return viol("dot/"+codec+"/marshal", "Marshal failed: %v\ngraph:\n%s", err, strings.Join(want, "\n"))
		}
		c.Instance["dot_bytes"] = len(b)
		if bytes.Contains(b, []byte("\"")) {
			c.Probe("quoted_ids", 1)
		}
		dst := dotNew(kind)
		err = dotUnmarshal(b, dst)
		c.Case("control", false, 2)
		c.Oracle("roundtrip")
		if err != nil {
			return viol("dot/"+codec+"/roundtrip-rejected", "Unmarshal rejects the output of Marshal: %v\noutput:\n%s\ngraph:\n%s", err, b, strings.Join(want, "\n"))
		}
		if d := dotDiff(want, dotDescribe(dst)); d != "" {
			return viol("dot/"+codec+"/roundtrip", "Unmarshal(Marshal(g)) is not g: %s\noutput of Marshal:\n%s", d, b)
		}
		if why := dotClosed(dst); why != "" {
			return viol("dot/"+codec+"/roundtrip", "graph decoded from the output of Marshal is inconsistent: %s\noutput of Marshal:\n%s", why, b)
		}
		b2, err := dotMarshal(dst, "", prefix, indent)
		c.Case("control", false, 3)
		c.Oracle("fixpoint")
		if err != nil || !bytes.Equal(b2, b) {
			return viol("dot/"+codec+"/fixpoint", "Marshal(Unmarshal(Marshal(g))) differs from Marshal(g) (err=%v)\nfirst:\n%s\nsecond:\n%s", err, b, b2)
		}
		// the syntax tree prints and (informative only) re-parses
		f, err := fdot.ParseBytes(b)
		c.Case("control", false, 4)
		if err != nil {
			return viol("dot/formats/parse", "formats/dot.ParseBytes rejects what Unmarshal accepted: %v", err)
		}
		s := f.String()
		if f2, err := fdot.ParseString(s); err != nil || f2.String() != s {
			c.Probe("ast_string_reparse_failed", 1)
		}
		return nil
	}); v != nil {
		return v
	}
	if b == nil {
		return nil
	}

	// ---- fault arm ----
	hb := hashBytes(b)
	try := func(kindName string, nontrivial bool, cor []byte, what func() string, key ...uint64) *Violation {
		var accepted dotView
		if v := c.Guard(codec+"/decode-damaged", func() string {
			return fmt.Sprintf("%s of the Marshal output of a %s graph: %q", what(), dotKinds[kind], cor)
		}, func() *Violation {
			dst := dotNew(kind)
			err := dotUnmarshal(cor, dst)
			c.Case(kindName, nontrivial, append([]uint64{hb}, key...)...)
			c.Oracle("damaged-error-or-closed")
			if err != nil {
				c.Outcome("damaged.rejected")
				return nil
			}
			c.Outcome("damaged.accepted")
			if kindName == "eof@k" {
				c.Probe("truncated_accepted", 1)
			} else if nontrivial {
				c.Probe("corrupted_accepted", 1)
			}
			if why := dotClosed(dst); why != "" {
				return viol("dot/"+codec+"/damaged-accepted-inconsistent", "%s: Unmarshal returned nil but %s\ninput: %q", what(), why, cor)
			}
			accepted = dst
			return nil
		}); v != nil {
			return v
		}
		if accepted == nil {
			return nil
		}
		// an accepted graph can be written again without a panic
		return c.Guard(codec+"/remarshal-accepted", func() string { return fmt.Sprintf("Marshal of the graph decoded from %q", cor) }, func() *Violation {
			if _, err := dotMarshal(accepted, "", "", " "); err == nil {
				c.Probe("accepted_remarshal_ok", 1)
			}
			return nil
		})
	}
	for k := 0; k < len(b); k++ {
		kk := k
		if v := try("eof@k", true, b[:k], func() string { return fmt.Sprintf("truncation to %d of %d bytes", kk, len(b)) }, uint64(k)); v != nil {
			return v
		}
	}
	for pos := 0; pos < len(b); pos++ {
		for _, x := range dotHostile {
			p, xx := pos, x
			cor := simio.Set(b, pos, x)
			if v := try("set(byte)", b[pos] != x, cor, func() string { return fmt.Sprintf("byte %d %q replaced by %q", p, b[p], xx) }, uint64(pos), uint64(x)); v != nil {
				return v
			}
		}
	}
	c.agg.Exhaustive["dot/hostile_bytes_per_position"] = int64(len(dotHostile))
	c.agg.Exhaustive["dot/truncation_points_per_output"] = int64(len(b))
	// a lost byte at every position, a stray hostile byte before every
	// position, and a few duplicated spans (a retransmitted block)
	for pos := 0; pos < len(b); pos++ {
		p := pos
		cor := append(append([]byte(nil), b[:pos]...), b[pos+1:]...)
		if v := try("del@k", true, cor, func() string { return fmt.Sprintf("byte %d %q deleted", p, b[p]) }, uint64(pos), 1<<20); v != nil {
			return v
		}
		x := dotHostile[c.T.Choose(simrt.KFault, len(dotHostile))]
		ins := append(append(append([]byte(nil), b[:pos]...), x), b[pos:]...)
		if v := try("ins@k", true, ins, func() string { return fmt.Sprintf("byte %q inserted before position %d", x, p) }, uint64(pos), uint64(x), 1<<21); v != nil {
			return v
		}
	}
	for i := 0; i < 12 && len(b) > 2; i++ {
		from := c.T.Choose(simrt.KFault, len(b)-1)
		n := 1 + c.T.Choose(simrt.KFault, len(b)-from)
		if n > 40 {
			n = 40
		}
		dup := append(append(append([]byte(nil), b[:from+n]...), b[from:from+n]...), b[from+n:]...)
		if v := try("dup(span)", true, dup, func() string { return fmt.Sprintf("bytes %d..%d duplicated", from, from+n) }, uint64(from), uint64(n), 1<<22); v != nil {
			return v
		}
	}

	// ---- structured graphs (last: findings here do not hide the arms above) ----
	return runDotStructured(c, used)
}

// runDotStructured checks graphs with subgraphs: a Structurer (named
// subgraphs printed before the nodes) or Subgrapher nodes (a node that stands
// for a subgraph; an edge to it is an edge to every node of the subgraph:
// "an edge is created from every node on the left to every node on the
// right", the DOT language definition referenced by formats/dot/doc.go).
// The decoder flattens subgraphs, so the expected result is the union.
func runDotStructured(c *Ctx, used map[string]bool) *Violation {
	t := c.T
	variant := t.Choose(simrt.KWorkload, 2)
	var kind int
	if variant == 0 {
		kind = t.Choose(simrt.KWorkload, 4)
	} else {
		kind = t.Choose(simrt.KWorkload, 4) // Subgrapher (simple graphs) / MultiSubgrapher (multigraphs)
	}
	codec := dotCodec(kind)
	directed := kind%2 == 0
	top := dotDrawModel(c, kind, 4, 5, used, variant == 0)
	top.name = dotDrawUnique(t, used)
	g, nodes := top.build()
	g.common().name = top.name
	// expected items, by name
	var items []string
	addModel := func(m *dotModel) {
		for i, n := range m.names {
			items = append(items, "node "+strconv.Quote(n)+" "+dotAttrDesc(m.nattrs[i]))
		}
		for _, e := range m.edges {
			items = append(items, dotEdgeDesc(directed, dotEndDesc(m.names[e.f], e.fp, e.fc), dotEndDesc(m.names[e.t], e.tp, e.tc), e.attrs))
		}
	}
	addModel(top)
	nsub := 1 + t.Choose(simrt.KWorkload, 2)
	mismatch := false
	what := "Structurer"
	if variant == 0 {
		c.Probe("structured_graphs", 1)
		for i := 0; i < nsub; i++ {
			sm := dotDrawModel(c, kind, 3, 3, used, true)
			sm.ga, sm.na, sm.ea = nil, nil, nil
			sm.name = dotDrawUnique(t, used) // distinct names: Marshal tracks printed edges per graph name
			sg, _ := sm.build()
			sg.common().name = sm.name
			switch gg := g.(type) {
			case *dotSD:
				gg.subs = append(gg.subs, sg.(dot.Graph))
			case *dotSU:
				gg.subs = append(gg.subs, sg.(dot.Graph))
			case *dotMD:
				gg.subs = append(gg.subs, sg.(dot.Multigraph))
			case *dotMU:
				gg.subs = append(gg.subs, sg.(dot.Multigraph))
			}
			addModel(sm)
			// one run in eight: the subgraph holds a subgraph of the other
			// direction, two levels below the graph handed to Marshal, which
			// has to refuse it like a mismatch one level down ("dot:
			// mismatched graph type") rather than print half a document
			if i == 0 && t.Choose(simrt.KWorkload, 8) == 7 {
				bad := dotDrawModel(c, kind^1, 2, 1, used, true)
				bad.ga, bad.na, bad.ea = nil, nil, nil
				bad.name = dotDrawUnique(t, used)
				bg, _ := bad.build()
				bg.common().name = bad.name
				switch sgg := sg.(type) {
				case *dotSD:
					sgg.subs = append(sgg.subs, bg.(dot.Graph))
				case *dotSU:
					sgg.subs = append(sgg.subs, bg.(dot.Graph))
				case *dotMD:
					sgg.subs = append(sgg.subs, bg.(dot.Multigraph))
				case *dotMU:
					sgg.subs = append(sgg.subs, bg.(dot.Multigraph))
				}
				mismatch = true
				c.Probe("nested_direction_mismatch", 1)
			}
		}
	} else {
		what = "Subgrapher"
		if kind >= 2 {
			what = "MultiSubgrapher"
		}
		type member struct {
			names []string
			node  graph.Node
		}
		var subsN []member
		nextID := int64(100)
		for i := 0; i < nsub; i++ {
			sm := dotDrawModel(c, kind, 3, 2, used, false)
			if len(sm.names) == 0 {
				sm.ids, sm.names, sm.nattrs = []int64{0}, []string{dotDrawUnique(t, used)}, [][]encoding.Attribute{nil}
			}
			sm.name = dotDrawUnique(t, used)
			sg, _ := sm.build()
			sg.common().name = sm.name
			// half of the subgraph nodes hand out an anonymous graph (no
			// DOTID, no attributes): the printer then names the subgraph
			// after the node that stands for it
			anon := t.Choose(simrt.KWorkload, 2) == 1
			var sn graph.Node
			switch {
			case kind < 2 && !anon:
				sn = &dotHSubNode{id: nextID, sub: sg}
			case kind == 0:
				sn = &dotHAnonSubNode{id: nextID, sub: struct{ graph.Directed }{sg.(graph.Directed)}}
			case kind == 1:
				sn = &dotHAnonSubNode{id: nextID, sub: struct{ graph.Undirected }{sg.(graph.Undirected)}}
			case !anon:
				sn = &dotHMultiSubNode{id: nextID, sub: sg.(graph.Multigraph)}
			case kind == 2:
				sn = &dotHMultiSubNode{id: nextID, sub: struct{ dotDirMulti }{sg.(dotDirMulti)}}
			default:
				sn = &dotHMultiSubNode{id: nextID, sub: struct{ dotUndirMulti }{sg.(dotUndirMulti)}}
			}
			if anon {
				c.Probe("anonymous_subgraph_nodes", 1)
			}
			nextID++
			g.AddNode(sn)
			subsN = append(subsN, member{sm.names, sn})
			addModel(sm)
			c.Probe("subgraph_nodes", 1)
		}
		// edges between subgraph nodes and the other vertices
		type vertex struct {
			names []string
			node  graph.Node
		}
		var verts []vertex
		for i, n := range nodes {
			verts = append(verts, vertex{[]string{top.names[i]}, n})
		}
		for _, s := range subsN {
			verts = append(verts, vertex(s))
		}
		seen := map[[2]int]bool{}
		ne := 1 + t.Choose(simrt.KWorkload, 4)
		for i := 0; i < ne; i++ {
			a := len(nodes) + t.Choose(simrt.KWorkload, len(subsN)) // one end is a subgraph node
			b := t.Choose(simrt.KWorkload, len(verts))
			if a == b {
				continue // an edge from a subgraph to itself would need self loops on every member pair; not generated
			}
			if t.Choose(simrt.KWorkload, 2) == 1 {
				a, b = b, a
			}
			key := [2]int{a, b}
			if !directed && b < a {
				key = [2]int{b, a}
			}
			if seen[key] {
				continue
			}
			seen[key] = true
			he := &dotHEdge{f: verts[a].node, t: verts[b].node}
			he.list = dotDrawAttrs(t, 1)
			switch gg := g.(type) {
			case *dotSD:
				gg.SetEdge(he)
			case *dotSU:
				gg.SetEdge(he)
			case *dotMD:
				he.uid = int64(1000 + i)
				gg.SetLine(he)
			case *dotMU:
				he.uid = int64(1000 + i)
				gg.SetLine(he)
			}
			for _, x := range verts[a].names {
				for _, y := range verts[b].names {
					items = append(items, dotEdgeDesc(directed, dotEndDesc(x, "", ""), dotEndDesc(y, "", ""), he.list))
				}
			}
		}
	}
	// simple destinations keep one edge per pair: collapse expected duplicates
	sort.Strings(items)
	want := append(dotHeaderDesc(top.name, directed, top.ga, top.na, top.ea), items...)
	var b []byte
	return c.Guard(codec+"/"+strings.ToLower(what), func() string { return fmt.Sprintf("%s graph (%s)\n%s", what, dotKinds[kind], strings.Join(want, "\n")) }, func() *Violation {
		var err error
		b, err = dotMarshal(g, "", "", " ")
		c.Case("control", false, 10+uint64(variant))
		if mismatch {
			c.Oracle("nested-mismatch-refused")
			if err == nil {
				return viol("dot/"+codec+"/nested-mismatch-accepted", "Marshal returns no error for a graph whose subgraph holds a subgraph of the other direction, and this document:\n%s", b)
			}
			return nil
		}
		if err != nil {
			return viol("dot/"+codec+"/marshal", "Marshal of a %s graph failed: %v", what, err)
		}
		dst := dotNew(kind)
		err = dotUnmarshal(b, dst)
		c.Case("control", false, 12+uint64(variant))
		c.Oracle(strings.ToLower(what) + "-roundtrip")
		if err != nil {
			return viol("dot/"+codec+"/"+strings.ToLower(what)+"-rejected", "Unmarshal rejects the output of Marshal for a %s graph: %v\noutput:\n%s", what, err, b)
		}
		if d := dotDiff(want, dotDescribe(dst)); d != "" {
			return viol("dot/"+codec+"/"+strings.ToLower(what)+"-roundtrip/"+dotDiffKind(want, dotDescribe(dst)), "graph read back from the Marshal output of a %s graph is not the union of the graph and its subgraphs: %s\noutput of Marshal:\n%s", what, d, b)
		}
		return nil
	})
}
