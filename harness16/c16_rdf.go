package main

import (
	"bytes"
	"crypto/md5"
	"crypto/sha1"
	"crypto/sha256"
	"errors"
	"fmt"
	"hash"
	"io"
	"net/url"
	"sort"
	"strconv"
	"strings"

	"gonum.org/v1/gonum/graph/formats/rdf"
	"verif/simio"
	"verif/simrt"
)

// 6.x RDF N-Quads text form and dataset canonicalisation (graph/formats/rdf).
//
// Documented behaviour relied on (paths under /repo/graph/formats/rdf):
//
//   rdf.go:169-176   Statement.String "returns the RDF 1.1 N-Quad formatted statement"
//   rdf.go:200-209   ParseNQuad "parses the statement and returns the corresponding Statement. All Term UID
//                    fields are zero on return"; an empty or comment-only string is not a statement
//                    (ErrIncomplete / ErrInvalid: parse.rl, statement needs subject predicate object '.')
//   parse.rl:25-31   a statement may be followed by whitespace and a '#' comment
//   nquads.rl        the token grammar (IRIREF, BLANK_NODE_LABEL, STRING_LITERAL_QUOTE with ECHAR/UCHAR, LANGTAG)
//   rdf.go:211-218   Decoder: "unique terms will have unique IDs ... Term UIDs are based from 1"
//   rdf.go:244-279   Decoder.Unmarshal: one statement per line, blank lines and lines starting with '#' are
//                    skipped, a parse error is "rdf: failed to parse %q: %w", the reader's error is returned as
//                    is, the end of the input is io.EOF (rdf_test.go:52-66 reads on after a bad line)
//   rdf.go:67-77,103-126,143-152  NewBlankTerm / NewIRITerm / NewLiteralTerm escape as needed, Term.Parts
//                    returns the unquoted, unescaped text and the qualifier
//   urna.go:19-22    Deduplicate "removes duplicate statements in s ... returns the deduplicated slice with
//                    statements sorted in lexical order"
//   urna.go:53-59,77-83  URGNA2012 / URDNA2015 "applies the Universal RDF Dataset Normalization Algorithm"
//                    (the specification's result is the same for every isomorphic input dataset)
//   iso_canonical.go:27-31   Isomorphic "returns whether the RDF graph datasets a and b are isomorphic,
//                    where there is a bijective mapping between blank nodes in a and b"
//   iso_canonical.go:63-80   IsoCanonicalHashes (decomp, dist; iso_canonical_test.go:83-88 expects unique
//                    blank hashes with dist=true; zero has the hash's size)
//   iso_canonical.go:141-150 C14n "relabeling ... blank terms are ordered lexically by their hash value and
//                    then given a blank label with the prefix _:c14n"
//   iso_canonical_example_test.go:188-249, urna_example_test.go  two isomorphic inputs print the same output

func init() {
	// every printable ASCII character an IRIREF cannot hold literally (the
	// control characters are left out: net/url, which the package validates
	// IRIs with, rejects them, and an error is a legitimate answer)
	// (https://www.w3.org/TR/n-quads/#grammar-production-IRIREF), as a UCHAR
	// escape in the query part: a constructor that is handed the decoded text
	// has to write each of them as an escape again
	for _, ch := range "<>\"{}|^`\\" {
		rdfIRIs = append(rdfIRIs, fmt.Sprintf("<http://example.org/q?x=%s%04xy>", rdfU, ch))
		// and the decoded text for the constructor, where net/url (which
		// NewIRITerm validates with) takes it: the term must print with the
		// character escaped, parse, and give the text back
		if text := "http://example.org/q?x=" + string(ch) + "y"; func() bool { _, err := url.Parse(text); return err == nil }() {
			rdfPlainIRIs = append(rdfPlainIRIs, text)
		}
	}
	register(&Scenario{Name: "nquads", Run: runNQuads})
	register(&Scenario{Name: "rdf-c14n", Run: runRDFC14n})
}

// ---- N-Quads: generation ----

var rdfIRIs = []string{"<ex:p>", "<http://example.org/a>", "<urn:x:1>", "<http://example.org/é>", "<http://example.org/a%20b>",
	"<http://example.org/" + rdfU + "00e9>", "<mailto:a@b.c>", "<http://example.org/p?q=1#f>", `<http://example.org/\U0001F600>`,
	"<http://example.org/~a_b-c.d>", "<a:>", "<http://www.w3.org/1999/02/22-rdf-syntax-ns#type>",
	// UCHAR escapes in the authority, and escapes of characters an IRIREF
	// cannot hold literally
	"<http://ex" + rdfU + "00e4mple.org/s>", "<http://example.org/a" + rdfU + "0020b>", "<http://example.org/a" + rdfU + "003eb>"}

// rdfU is the two-character UCHAR introducer (backslash, u).
const rdfU = "\\" + "u"

var rdfPlainIRIs = []string{"ex:p", "http://example.org/a", "urn:x:1", "http://example.org/é", "http://example.org/a%20b", "mailto:a@b.c",
	"http://example.org/p?q=1#f", "http://example.org/😀", "http://a\u200bb.example/", "http://example.org/a\u200bb"}

var rdfBlankLabels = []string{"b0", "b1", "x", "a.b", "x-y", "0", "_u", "é", "a:b", "b·c", "c14n0", "a", "z", "g", "B_1.2-3", "a_:b"}

var rdfLitAtoms = []string{"a", "b", "Z", "0", " ", "é", "😀", "\t", `\t`, `\n`, `\r`, `\"`, `\\`, `\b`, `\f`, `\'`, rdfU + "00e9", rdfU + "0041", rdfU + "000A",
	`\U0001F600`, rdfU + "9fa5", rdfU + "AC00", rdfU + "fffd", rdfU + "8000", `\U00009fa5`, `\U0010FFFD`, `\UFFFFFFFF`, `\U80000000`, `\U00110000`, rdfU + "d800", "'", "<", ">", "#", ".", "@", "^", "_:", " ", "\x00", "http://x"}

var rdfRawChars = []string{"a", "b", " ", "é", "😀", "\t", "\n", "\r", "\"", "\\", "\b", "\f", "'", "\u0080", " ", "\x00", "<", "#", "."}

var rdfLangs = []string{"@en", "@en-GB", "@x-1a", "@EN", "@de-CH-1996"}

var rdfDatatypes = []string{"^^<http://www.w3.org/2001/XMLSchema#string>", "^^<ex:dt>", "^^<http://example.org/" + rdfU + "00e9>"}

var rdfHostileLabels = []string{"", "a b", "a.", ".a", "-a", "a..b", "a.b", "a:b", "é", "a\u00b7", "\u00b7a", "1a", "_", "a-", "a\n", "a>", "_:a", "a\u203f", "a\x00", "a.b."}
var rdfHostileLangs = []string{"@", "@en-", "@-en", "@en--us", "@e1", "@en-1a", "@EN", "@en us", "@en-us-", "@en\n", "@@en", "@en-Latn-US", "@1", "@en_US", "@é"}

func rdfPick(t *simrt.Tape, list []string) string { return list[t.Choose(simrt.KValue, len(list))] }

func rdfDrawLiteral(t *simrt.Tape) string {
	var b strings.Builder
	b.WriteByte('"')
	n := t.Choose(simrt.KValue, 7)
	for i := 0; i < n; i++ {
		b.WriteString(rdfPick(t, rdfLitAtoms))
	}
	b.WriteByte('"')
	switch t.Choose(simrt.KValue, 3) {
	case 1:
		b.WriteString(rdfPick(t, rdfLangs))
	case 2:
		b.WriteString(rdfPick(t, rdfDatatypes))
	}
	return b.String()
}

// rdfDrawStatement assembles a statement from lexical forms.
func rdfDrawStatement(t *simrt.Tape) *rdf.Statement {
	s := &rdf.Statement{}
	if t.Choose(simrt.KValue, 3) == 1 {
		s.Subject.Value = "_:" + rdfPick(t, rdfBlankLabels)
	} else {
		s.Subject.Value = rdfPick(t, rdfIRIs)
	}
	s.Predicate.Value = rdfPick(t, rdfIRIs)
	switch t.Choose(simrt.KValue, 4) {
	case 0:
		s.Object.Value = rdfPick(t, rdfIRIs)
	case 1:
		s.Object.Value = "_:" + rdfPick(t, rdfBlankLabels)
	default:
		s.Object.Value = rdfDrawLiteral(t)
	}
	switch t.Choose(simrt.KValue, 4) {
	case 1:
		s.Label.Value = rdfPick(t, rdfIRIs)
	case 2:
		s.Label.Value = "_:" + rdfPick(t, rdfBlankLabels)
	}
	return s
}

// rdfInvented classifies an unstable accepted statement: the known parser
// defect invents a graph label out of the tail of a blank-node object that
// contains "_:" or ends in a label-like suffix.
func rdfInvented(p *rdf.Statement) string {
	if p != nil && p.Label.Value != "" && strings.HasPrefix(p.Object.Value, "_:") && strings.HasSuffix(p.Object.Value, strings.TrimPrefix(p.Label.Value, "_:")) {
		return "/label-invented-from-blank-object"
	}
	return "/other"
}

func rdfSame(a, b *rdf.Statement) bool {
	return a.Subject.Value == b.Subject.Value && a.Predicate.Value == b.Predicate.Value && a.Object.Value == b.Object.Value && a.Label.Value == b.Label.Value
}

// rdfFirstDiff names the first term in which two statements differ.
func rdfFirstDiff(a, b *rdf.Statement) string {
	switch {
	case a.Subject.Value != b.Subject.Value:
		return "subject"
	case a.Predicate.Value != b.Predicate.Value:
		return "predicate"
	case a.Object.Value != b.Object.Value:
		return "object"
	}
	return "label"
}

func rdfShow(s *rdf.Statement) string {
	if s == nil {
		return "<nil>"
	}
	return fmt.Sprintf("{S:%q P:%q O:%q G:%q}", s.Subject.Value, s.Predicate.Value, s.Object.Value, s.Label.Value)
}

// rdfItem is one result of reading a document: a statement or a parse error.
type rdfItem struct {
	s   *rdf.Statement
	err error
}

func (it rdfItem) String() string {
	if it.err != nil {
		return "error(" + it.err.Error() + ")"
	}
	return rdfShow(it.s)
}

// rdfReference parses doc line by line with ParseNQuad: the meaning of a
// document independent of how it is delivered. Callers hold a Guard.
func rdfReference(doc []byte) []rdfItem {
	var out []rdfItem
	for _, line := range bytes.Split(doc, []byte("\n")) {
		data := bytes.TrimSpace(line)
		if len(data) == 0 || data[0] == '#' {
			continue
		}
		s, err := rdf.ParseNQuad(string(data))
		if err != nil {
			out = append(out, rdfItem{err: err})
			continue
		}
		out = append(out, rdfItem{s: s})
	}
	return out
}

// rdfDrain reads dec to its terminal error (io.EOF or the injected error).
func rdfDrain(dec *rdf.Decoder, max int) (items []rdfItem, terminal error) {
	for i := 0; i < max; i++ {
		s, err := dec.Unmarshal()
		switch {
		case err == nil:
			items = append(items, rdfItem{s: s})
		case err == io.EOF || errors.Is(err, simio.ErrInjected):
			return items, err
		default:
			items = append(items, rdfItem{err: err})
		}
	}
	return items, nil
}

// rdfCompare checks got against ref position by position; got may stop early
// when prefixOK.
func rdfCompare(ref, got []rdfItem, prefixOK bool) string {
	for i, g := range got {
		if i >= len(ref) {
			return fmt.Sprintf("result %d is %v but the document has only %d statements/bad lines", i, g, len(ref))
		}
		r := ref[i]
		switch {
		case r.err != nil && g.err != nil:
			if errors.Is(r.err, rdf.ErrInvalid) != errors.Is(g.err, rdf.ErrInvalid) || errors.Is(r.err, rdf.ErrIncomplete) != errors.Is(g.err, rdf.ErrIncomplete) || !strings.HasSuffix(g.err.Error(), r.err.Error()) {
				return fmt.Sprintf("result %d is the error %q, parsing the line alone gives %q", i, g.err, r.err)
			}
		case r.err != nil:
			return fmt.Sprintf("result %d is the statement %v, parsing the line alone fails with %q", i, g, r.err)
		case g.err != nil:
			return fmt.Sprintf("result %d is the error %q, parsing the line alone gives %v", i, g.err, r)
		case g.s == nil:
			return fmt.Sprintf("result %d is (nil, nil)", i)
		case !rdfSame(r.s, g.s):
			return fmt.Sprintf("result %d is %v, parsing the line alone gives %v", i, g, r)
		}
	}
	if len(got) < len(ref) && !prefixOK {
		return fmt.Sprintf("only %d of the %d statements/bad lines were returned; first missing: %v", len(got), len(ref), ref[len(got)])
	}
	return ""
}

var rdfBadLines = []string{"<a:a> <b:b> .", `<a:a> "lit" <c:c> .`, `_:b <p:p> "x"@ .`, "<rel> <p:p> <o:o> .", `<a:a> <b:b> "unterminated .`,
	"<a:a> <b:b> <c:c>", `<a:a> <b:b> "\x" .`, `<a:a> <b:b> "\u12" .`, "_:. <b:b> <c:c> .", "<a:a> <b:b> <c:c> <d:d> <e:e> ."}

// rdfRespell rebuilds every term of st from its parts with the package's
// constructors (nil if a term cannot be rebuilt).
func rdfRespell(st *rdf.Statement) *rdf.Statement {
	re := func(t rdf.Term) (rdf.Term, bool) {
		if t.Value == "" {
			return rdf.Term{}, true
		}
		text, qual, kind, err := t.Parts()
		if err != nil {
			return rdf.Term{}, false
		}
		var n rdf.Term
		switch kind {
		case rdf.Blank:
			n, err = rdf.NewBlankTerm(text)
		case rdf.IRI:
			n, err = rdf.NewIRITerm(text)
		case rdf.Literal:
			n, err = rdf.NewLiteralTerm(text, qual)
		default:
			return rdf.Term{}, false
		}
		return n, err == nil
	}
	var out rdf.Statement
	var ok [4]bool
	out.Subject, ok[0] = re(st.Subject)
	out.Predicate, ok[1] = re(st.Predicate)
	out.Object, ok[2] = re(st.Object)
	out.Label, ok[3] = re(st.Label)
	if !(ok[0] && ok[1] && ok[2] && ok[3]) {
		return nil
	}
	return &out
}

var rdfOddLines = []string{
	"<ex:s" + rdfU + "0041> <ex:p" + rdfU + "0041> <ex:o" + rdfU + "0041> <ex:g" + rdfU + "0041> .",
	"<ex:a#b" + rdfU + "007Fc> <ex:p> \"x\"^^<ex:t#" + rdfU + "007f> .",
	"_:b <ex:p> \"tab" + rdfU + "0009sep\" .",
	"<http://example.org/" + rdfU + "0001> <http://example.org/p> _:b .",
	"<http://example.org/a" + rdfU + "0020b> <http://example.org/p> _:b .",
	"<http://example.org/a" + rdfU + "003e" + rdfU + "0020" + rdfU + "003cs:b> <http://example.org/p> _:b .",
	"_:b <http://example.org/p> \"v\"^^<http://example.org/" + rdfU + "007bt" + rdfU + "007d> .",
	"<http://example.org/" + rdfU + "0025zz> <http://example.org/p> <http://example.org/o> <http://example.org/" + rdfU + "0001> .",
	"<http://ex" + rdfU + "00e4mple.org/s> <http://example.org/p> \"o\" .",
	"<http://example.org/" + rdfU + "005c> <http://example.org/p> _:b .",
	"<http://example.org/" + rdfU + "0022> <http://example.org/p> _:b .",
}

var rdfHostile = []byte{'"', '\\', '<', '>', '_', ':', '.', ' ', '@', '^', '\n', 0x00, 0x80, 0xFF}

func runNQuads(c *Ctx) *Violation {
	t := c.T
	tc := tapeChooser{t}
	c.Declare("constructor_terms", "torn_line_still_valid", "torn_line_parse_error", "bad_lines", "comment_lines", "read_n>0_with_EOF", "zero_length_read",
		"substituted_accepted", "statements_not_delivered_before_io_error", "crlf_lines", "decoder_reset")

	// ---- control: ParseNQuad(s.String()) == s ----
	n := 1 + t.Choose(simrt.KWorkload, 8)
	var stmts []*rdf.Statement
	for i := 0; i < n; i++ {
		stmts = append(stmts, rdfDrawStatement(t))
	}
	c.Instance["statements"] = n
	for i, s := range stmts {
		s := s
		if v := c.Guard("ParseNQuad/roundtrip", func() string { return rdfShow(s) }, func() *Violation {
			line := s.String()
			p, err := rdf.ParseNQuad(line)
			c.Case("control", false, hashString(line))
			c.Oracle("parse-string-roundtrip")
			if err != nil {
				return viol("nquads/ParseNQuad/roundtrip-rejected", "ParseNQuad(s.String()) fails: %v\nline: %q", err, line)
			}
			if !rdfSame(p, s) {
				return viol("nquads/ParseNQuad/roundtrip-"+rdfFirstDiff(p, s)+rdfInvented(p), "ParseNQuad(s.String()) = %v, s = %v\nline: %q", rdfShow(p), rdfShow(s), line)
			}
			if p.Subject.UID != 0 || p.Predicate.UID != 0 || p.Object.UID != 0 || p.Label.UID != 0 {
				return viol("nquads/ParseNQuad/uid", "ParseNQuad returned non-zero UIDs for %q", line)
			}
			if p.String() != line {
				return viol("nquads/ParseNQuad/roundtrip", "ParseNQuad(line).String() = %q, line = %q", p.String(), line)
			}
			// Parts decodes the lexical form: every ECHAR and UCHAR escape of
			// the generated terms, against an independent decoder
			c.Oracle("parts-of-parsed-terms")
			for _, term := range []rdf.Term{p.Subject, p.Predicate, p.Object, p.Label} {
				if term.Value == "" {
					continue
				}
				// (Parts is called for every term: a panic is a violation
				// whatever the reference decoder thinks of the escapes)
				gt, gq, gk, err := term.Parts()
				wt, wq, wk, ok := rdfRefParts(term.Value)
				if !ok {
					continue
				}
				if err != nil || gt != wt || gq != wq || gk != wk {
					return viol("nquads/Term/parts-of-parsed-term", "Term %q: Parts() = (%q, %q, %v, %v), the lexical form decodes to (%q, %q, %v)", term.Value, gt, gq, gk, err, wt, wq, wk)
				}
			}
			return nil
		}); v != nil {
			return v
		}
		_ = i
	}
	// lines that the grammar accepts and whose terms are unusual: whatever
	// ParseNQuad decides, nothing downstream of an accepted statement panics,
	// and everything that prints a statement prints one that parses
	{
		line := rdfPick(t, rdfOddLines)
		if v := c.Guard("ParseNQuad/odd-line", func() string { return line }, func() *Violation {
			st, err := rdf.ParseNQuad(line)
			c.Case("control", false, hashString(line), 31)
			c.Oracle("accepted-statement-is-usable")
			if err != nil {
				c.Outcome("odd.rejected")
				return nil
			}
			c.Outcome("odd.accepted")
			for _, term := range []rdf.Term{st.Subject, st.Predicate, st.Object, st.Label} {
				if term.Value != "" {
					term.Parts()
				}
			}
			back, err := rdf.ParseNQuad(st.String())
			if err != nil || !rdfSame(back, st) {
				return viol("nquads/ParseNQuad/accepted-unstable", "ParseNQuad(%q) = %v, but its String() %q parses to %v, %v", line, rdfShow(st), st.String(), rdfShow(back), err)
			}
			for i, f := range []func(dst, src []*rdf.Statement) ([]*rdf.Statement, error){rdf.URDNA2015, rdf.URGNA2012} {
				name := []string{"URDNA2015", "URGNA2012"}[i]
				out, err := f(nil, []*rdf.Statement{st})
				if err != nil {
					continue
				}
				for _, o := range out {
					if _, err := rdf.ParseNQuad(o.String()); err != nil {
						return viol("rdf-c14n/"+name+"/output-does-not-parse", "%s of the accepted statement %q prints %q, which does not parse: %v", name, line, o.String(), err)
					}
				}
				again, err := f(nil, out)
				if err != nil || len(again) != len(out) || (len(out) == 1 && again[0].String() != out[0].String()) {
					return viol("rdf-c14n/"+name+"/not-idempotent", "%s of its own output for %q differs: %v then %v (%v)", name, line, out, again, err)
				}
				// the same statement with every term spelled the way the
				// constructors spell it: one dataset, one canonical form
				if plain := rdfRespell(st); plain != nil && len(out) == 1 {
					pout, err := f(nil, []*rdf.Statement{plain})
					if err == nil && len(pout) == 1 && pout[0].String() != out[0].String() {
						return viol("rdf-c14n/"+name+"/spelling-changes-output", "%s of %q is %q; of the same statement spelled %q it is %q", name, line, out[0].String(), plain.String(), pout[0].String())
					}
				}
			}
			return nil
		}); v != nil {
			return v
		}
	}
	// constructors on labels and language tags that may be malformed: an error,
	// or a term that survives printing and parsing ("decoders are total" for the
	// two validators written as grammars, checkLabelText and checkLangText)
	for i := 0; i < 2; i++ {
		label := rdfPick(t, rdfHostileLabels)
		lang := rdfPick(t, rdfHostileLangs)
		if v := c.Guard("Term/constructors-hostile", func() string { return fmt.Sprintf("blank label %q, language tag %q", label, lang) }, func() *Violation {
			c.Case("control", false, hashString(label), hashString(lang))
			c.Oracle("constructors-error-or-roundtrip")
			subj, _ := rdf.NewBlankTerm("s")
			pred, _ := rdf.NewIRITerm("ex:p")
			for _, x := range []struct {
				what string
				term rdf.Term
				err  error
			}{
				func() (r struct {
					what string
					term rdf.Term
					err  error
				}) {
					r.what = fmt.Sprintf("NewBlankTerm(%q)", label)
					r.term, r.err = rdf.NewBlankTerm(label)
					return
				}(),
				func() (r struct {
					what string
					term rdf.Term
					err  error
				}) {
					r.what = fmt.Sprintf("NewLiteralTerm(\"v\", %q)", lang)
					r.term, r.err = rdf.NewLiteralTerm("v", lang)
					return
				}(),
			} {
				if x.err != nil {
					c.Probe("constructor_rejected_malformed", 1)
					continue
				}
				st := &rdf.Statement{Subject: subj, Predicate: pred, Object: x.term}
				p, err := rdf.ParseNQuad(st.String())
				if err != nil {
					return viol("nquads/Term/constructor-accepts-unparsable", "%s succeeds with %q, but the statement %q does not parse: %v", x.what, x.term.Value, st.String(), err)
				}
				if !rdfSame(p, st) {
					return viol("nquads/Term/constructor-accepts-unparsable", "%s succeeds with %q, but the statement %q parses as %v", x.what, x.term.Value, st.String(), rdfShow(p))
				}
			}
			return nil
		}); v != nil {
			return v
		}
	}
	// terms built with the constructors: Parts returns what went in, and the statement parses
	for i := 0; i < 3; i++ {
		var text string
		for k, m := 0, t.Choose(simrt.KValue, 6); k < m; k++ {
			text += rdfPick(t, rdfRawChars)
		}
		qual := ""
		switch t.Choose(simrt.KValue, 3) {
		case 1:
			qual = rdfPick(t, rdfLangs)
		case 2:
			qual = rdfPick(t, rdfPlainIRIs)
		}
		iri := rdfPick(t, rdfPlainIRIs)
		label := rdfPick(t, rdfBlankLabels)
		if v := c.Guard("Term/constructors", func() string { return fmt.Sprintf("literal %q qualifier %q, IRI %q, blank %q", text, qual, iri, label) }, func() *Violation {
			lt, err1 := rdf.NewLiteralTerm(text, qual)
			it, err2 := rdf.NewIRITerm(iri)
			bt, err3 := rdf.NewBlankTerm(label)
			c.Case("control", false, hashString(text), hashString(qual), hashString(iri), hashString(label))
			c.Probe("constructor_terms", 3)
			c.Oracle("constructors")
			if err1 != nil || err2 != nil || err3 != nil {
				return viol("nquads/Term/constructor-rejected", "NewLiteralTerm(%q,%q): %v; NewIRITerm(%q): %v; NewBlankTerm(%q): %v", text, qual, err1, iri, err2, label, err3)
			}
			gt, gq, gk, err := lt.Parts()
			if err != nil || gt != text || gq != qual || gk != rdf.Literal {
				return viol("nquads/Term/parts", "NewLiteralTerm(%q, %q) = %q; Parts() = (%q, %q, %v, %v)", text, qual, lt.Value, gt, gq, gk, err)
			}
			gt, gq, gk, err = it.Parts()
			if err != nil || gt != iri || gq != "" || gk != rdf.IRI {
				return viol("nquads/Term/parts", "NewIRITerm(%q) = %q; Parts() = (%q, %q, %v, %v)", iri, it.Value, gt, gq, gk, err)
			}
			gt, gq, gk, err = bt.Parts()
			if err != nil || gt != label || gq != "" || gk != rdf.Blank {
				return viol("nquads/Term/parts", "NewBlankTerm(%q) = %q; Parts() = (%q, %q, %v, %v)", label, bt.Value, gt, gq, gk, err)
			}
			s := &rdf.Statement{Subject: bt, Predicate: it, Object: lt, Label: it}
			p, err := rdf.ParseNQuad(s.String())
			if err != nil {
				return viol("nquads/ParseNQuad/roundtrip-rejected", "statement of constructed terms %q: ParseNQuad fails: %v", s.String(), err)
			}
			if !rdfSame(p, s) {
				return viol("nquads/ParseNQuad/roundtrip-"+rdfFirstDiff(p, s)+rdfInvented(p), "statement of constructed terms %q: ParseNQuad = %v", s.String(), rdfShow(p))
			}
			stmts = append(stmts, s)
			return nil
		}); v != nil {
			return v
		}
	}

	// ---- the document ----
	var doc []byte
	seps := []string{" ", "\t", "  ", " \t "}
	for i, s := range stmts {
		if t.Choose(simrt.KWorkload, 5) == 4 {
			doc = append(doc, []string{"\n", "# a comment\n", "   \n", "#\n", "\t# <a:a> <b:b> <c:c> .\n"}[t.Choose(simrt.KWorkload, 5)]...)
			c.Probe("comment_lines", 1)
		}
		if t.Choose(simrt.KWorkload, 8) == 7 {
			doc = append(doc, rdfPick(t, rdfBadLines)...)
			doc = append(doc, '\n')
			c.Probe("bad_lines", 1)
		}
		line := []string{"", " ", "\t"}[t.Choose(simrt.KValue, 3)]
		line += s.Subject.Value + seps[t.Choose(simrt.KValue, 4)] + s.Predicate.Value + seps[t.Choose(simrt.KValue, 4)] + s.Object.Value
		last := s.Object.Value
		if s.Label.Value != "" {
			line += seps[t.Choose(simrt.KValue, 4)] + s.Label.Value
			last = s.Label.Value
		}
		if strings.HasPrefix(last, "_:") {
			line += " ."
		} else {
			line += []string{" .", ".", "\t."}[t.Choose(simrt.KValue, 3)]
		}
		switch t.Choose(simrt.KValue, 5) {
		case 1:
			line += " "
		case 2:
			line += " # trailing comment . <x:x>"
		case 3:
			line += "\r"
			c.Probe("crlf_lines", 1)
		case 4:
			line += "#"
		}
		doc = append(doc, line...)
		if i < len(stmts)-1 || t.Choose(simrt.KWorkload, 2) == 0 {
			doc = append(doc, '\n')
		}
	}
	c.Instance["document_bytes"] = len(doc)
	hd := hashBytes(doc)
	var ref []rdfItem
	if v := c.Guard("ParseNQuad/lines", func() string { return fmt.Sprintf("%q", doc) }, func() *Violation {
		ref = rdfReference(doc)
		c.Case("control", false, hd, 0)
		return nil
	}); v != nil {
		return v
	}
	maxCalls := len(ref) + 8

	// ---- stream arm: benign chunking ----
	for k := 0; k < 4; k++ {
		plan := simio.NoFaults()
		plan.MaxChunk = []int{0, 1, 3, 9}[k]
		plan.ZeroReads = k >= 2
		plan.EOFWithData = k >= 1
		if v := c.Guard("Decoder/chunked", func() string { return fmt.Sprintf("reader delivering <=%d bytes per Read: %q", plan.MaxChunk, doc) }, func() *Violation {
			rd := &simio.Reader{Data: doc, Plan: plan, Ch: tc}
			dec := rdf.NewDecoder(rd)
			got, term := rdfDrain(dec, maxCalls)
			c.Case("chunk", k > 0, hd, uint64(k))
			c.Probe("read_n>0_with_EOF", rd.DataEOFs)
			c.Probe("zero_length_read", rd.ZeroReads)
			c.Oracle("stream-equals-lines")
			if d := rdfCompare(ref, got, false); d != "" {
				return viol("nquads/Decoder/chunked", "reader delivering <=%d bytes per Read (zero-length reads: %v): %s\ndocument: %q", plan.MaxChunk, plan.ZeroReads, d, doc)
			}
			if term != io.EOF {
				return viol("nquads/Decoder/end", "after the last statement Unmarshal returns %v, want io.EOF\ndocument: %q", term, doc)
			}
			// unique terms have unique IDs, based from 1
			c.Oracle("uids")
			ids := map[string]int64{}
			back := map[int64]string{}
			for _, it := range got {
				if it.s == nil {
					continue
				}
				for j, tm := range []rdf.Term{it.s.Subject, it.s.Predicate, it.s.Object, it.s.Label} {
					if j == 3 && tm.Value == "" {
						if tm.UID != 0 {
							return viol("nquads/Decoder/uid", "absent graph label has UID %d", tm.UID)
						}
						continue
					}
					if tm.UID < 1 {
						return viol("nquads/Decoder/uid", "term %q has UID %d; documented: based from 1", tm.Value, tm.UID)
					}
					if id, ok := ids[tm.Value]; ok && id != tm.UID {
						return viol("nquads/Decoder/uid", "term %q has UIDs %d and %d", tm.Value, id, tm.UID)
					}
					if v, ok := back[tm.UID]; ok && v != tm.Value {
						return viol("nquads/Decoder/uid", "terms %q and %q share UID %d", v, tm.Value, tm.UID)
					}
					ids[tm.Value], back[tm.UID] = tm.UID, tm.Value
				}
			}
			if s, err := dec.Unmarshal(); err == nil {
				return viol("nquads/Decoder/end", "Unmarshal after io.EOF returned the statement %v", rdfShow(s))
			}
			return nil
		}); v != nil {
			return v
		}
	}

	// ---- stream arm: Reset and a second stream through the same Decoder ----
	// "Reset resets the decoder to use the provided io.Reader, retaining the
	// existing Term ID mapping": a term seen before keeps its UID, a new term
	// gets one no other term has, and Terms() agrees with the statements
	if v := c.Guard("Decoder/reset", func() string {
		return fmt.Sprintf("%q, Reset, then the same lines in reverse order with two new statements", doc)
	}, func() *Violation {
		dec := rdf.NewDecoder(&simio.Reader{Data: doc, Plan: simio.NoFaults(), Ch: tc})
		first, _ := rdfDrain(dec, maxCalls)
		var second []byte
		lines := bytes.Split(doc, []byte("\n"))
		second = append(second, "<ex:reset-s> <ex:reset-p> \"new\" <ex:reset-g> .\n"...)
		for i := len(lines) - 1; i >= 0; i-- {
			second = append(append(second, lines[i]...), '\n')
		}
		second = append(second, "_:resetb <ex:reset-p> <ex:reset-s> .\n"...)
		dec.Reset(&simio.Reader{Data: second, Plan: simio.NoFaults(), Ch: tc})
		again, _ := rdfDrain(dec, len(lines)+12)
		c.Case("control", false, hd, 99)
		c.Oracle("uids-across-reset")
		c.Probe("decoder_reset", 1)
		ids := map[string]int64{}
		back := map[int64]string{}
		n := 0
		for _, it := range append(append([]rdfItem(nil), first...), again...) {
			if it.s == nil {
				continue
			}
			n++
			for j, tm := range []rdf.Term{it.s.Subject, it.s.Predicate, it.s.Object, it.s.Label} {
				if j == 3 && tm.Value == "" {
					continue
				}
				if id, ok := ids[tm.Value]; ok && id != tm.UID {
					return viol("nquads/Decoder/uid-across-reset", "term %q has UID %d before and %d after Reset", tm.Value, id, tm.UID)
				}
				if v, ok := back[tm.UID]; ok && v != tm.Value {
					return viol("nquads/Decoder/uid-across-reset", "terms %q and %q share UID %d (one stream, Reset, a second stream)", v, tm.Value, tm.UID)
				}
				ids[tm.Value], back[tm.UID] = tm.UID, tm.Value
			}
		}
		terms := dec.Terms()
		for text, id := range ids {
			if terms[text] != id {
				return viol("nquads/Decoder/terms", "Terms()[%q] = %d, the statements carry UID %d", text, terms[text], id)
			}
		}
		if len(terms) != len(ids) {
			return viol("nquads/Decoder/terms", "Terms() holds %d terms, the %d statements decoded hold %d", len(terms), n, len(ids))
		}
		return nil
	}); v != nil {
		return v
	}

	// ---- stream arm: the stream ends / fails after k bytes, every k ----
	for k := 0; k <= len(doc); k++ {
		k := k
		torn := doc[:k]
		for mode := 0; mode < 3; mode++ {
			mode := mode
			plan := simio.NoFaults()
			kindName := "eof@k"
			switch mode {
			case 0:
				plan.EOFAt = k
				plan.EOFWithData = true
			case 1:
				kindName = "err@k.read"
				plan.ErrAt = k
				plan.ErrShort = k%2 == 1
			default:
				// the error is reported once (with or without data), then the
				// device pretends the stream ended: it must not be swallowed
				kindName = "err@k.read-transient"
				plan.ErrAt = k
				plan.ErrShort = k%2 == 0
				plan.ErrTransient = true
			}
			plan.MaxChunk = []int{0, 5, 1}[(k/2)%3]
			plan.ZeroReads = k%5 == 4
			if v := c.Guard("Decoder/"+kindName, func() string { return fmt.Sprintf("%s with k=%d of %d: %q", kindName, k, len(doc), doc) }, func() *Violation {
				tref := rdfReference(torn)
				if k > 0 && k < len(doc) && doc[k-1] != '\n' && mode == 0 {
					// the cut is inside a line
					tail := torn[bytes.LastIndexByte(torn, '\n')+1:]
					if d := bytes.TrimSpace(tail); len(d) > 0 && d[0] != '#' {
						if _, err := rdf.ParseNQuad(string(d)); err == nil {
							c.Probe("torn_line_still_valid", 1)
						} else {
							c.Probe("torn_line_parse_error", 1)
						}
					}
				}
				rd := &simio.Reader{Data: doc, Plan: plan, Ch: tc}
				dec := rdf.NewDecoder(rd)
				got, term := rdfDrain(dec, maxCalls)
				c.Case(kindName, k < len(doc), hd, uint64(k))
				c.Oracle("stream-cut")
				if d := rdfCompare(tref, got, mode >= 1); d != "" {
					return viol("nquads/Decoder/"+kindName, "stream cut after %d of %d bytes: %s\ndelivered bytes: %q", k, len(doc), d, torn)
				}
				if mode == 0 {
					if term != io.EOF {
						return viol("nquads/Decoder/end", "stream ended after %d of %d bytes: Unmarshal finally returns %v, want io.EOF", k, len(doc), term)
					}
				} else {
					if !errors.Is(term, simio.ErrInjected) {
						return viol("nquads/Decoder/read-error-lost", "reader failed (%s) after %d of %d bytes: Unmarshal finally returns %v, want the reader's error\ndelivered bytes: %q", kindName, k, len(doc), term, torn)
					}
					if mode == 2 {
						return nil // after a transient error the decoder's later behaviour is not constrained
					}
					if len(got) < len(tref) {
						c.Probe("statements_not_delivered_before_io_error", len(tref)-len(got))
					}
				}
				if s, err := dec.Unmarshal(); err == nil {
					return viol("nquads/Decoder/end", "Unmarshal after the final error %v returned the statement %v", term, rdfShow(s))
				}
				return nil
			}); v != nil {
				return v
			}
		}
	}
	c.agg.Exhaustive["nquads/stream_cut_points_per_document"] = int64(len(doc) + 1)

	// ---- a byte lost / a stray byte inserted in single statement lines ----
	for _, s := range stmts {
		line := []byte(s.String())
		hl := hashBytes(line)
		for pos := 0; pos <= len(line); pos++ {
			for mode := 0; mode < 2; mode++ {
				var cor string
				kind := "del@k"
				if mode == 0 {
					if pos == len(line) {
						continue
					}
					cor = string(line[:pos]) + string(line[pos+1:])
				} else {
					kind = "ins@k"
					cor = string(line[:pos]) + string(rdfHostile[c.T.Choose(simrt.KFault, len(rdfHostile))]) + string(line[pos:])
				}
				pos, cor, kind := pos, cor, kind
				if v := c.Guard("ParseNQuad/"+kind, func() string { return fmt.Sprintf("%s at %d: %q", kind, pos, cor) }, func() *Violation {
					p, err := rdf.ParseNQuad(cor)
					c.Case(kind, true, hl, uint64(pos), hashString(cor))
					c.Oracle("damaged-error-or-stable")
					if err != nil {
						c.Outcome("damaged.rejected")
						return nil
					}
					c.Outcome("damaged.accepted")
					if p == nil {
						return viol("nquads/ParseNQuad/nil", "ParseNQuad(%q) = (nil, nil)", cor)
					}
					q, err := rdf.ParseNQuad(p.String())
					if err != nil || !rdfSame(p, q) {
						return viol("nquads/ParseNQuad/accepted-unstable"+rdfInvented(p), "ParseNQuad(%q) = %v, but its String() %q parses to %v, %v", cor, rdfShow(p), p.String(), rdfShow(q), err)
					}
					return nil
				}); v != nil {
					return v
				}
			}
		}
	}
	// ---- byte substitutions in single statement lines ----
	for _, s := range stmts {
		line := []byte(s.String())
		hl := hashBytes(line)
		for pos := 0; pos < len(line); pos++ {
			for _, x := range rdfHostile {
				pos, x := pos, x
				cor := string(simio.Set(line, pos, x))
				if v := c.Guard("ParseNQuad/substituted", func() string { return fmt.Sprintf("byte %d %q replaced by %q: %q", pos, line[pos], x, cor) }, func() *Violation {
					p, err := rdf.ParseNQuad(cor)
					c.Case("set(byte)", line[pos] != x, hl, uint64(pos), uint64(x))
					c.Oracle("substituted-error-or-stable")
					if err != nil {
						c.Outcome("substituted.rejected")
						return nil
					}
					c.Outcome("substituted.accepted")
					c.Probe("substituted_accepted", 1)
					if p == nil {
						return viol("nquads/ParseNQuad/nil", "ParseNQuad(%q) = (nil, nil)", cor)
					}
					q, err := rdf.ParseNQuad(p.String())
					if err != nil || !rdfSame(p, q) {
						return viol("nquads/ParseNQuad/accepted-unstable"+rdfInvented(p), "ParseNQuad(%q) = %v, but its String() %q parses to %v, %v", cor, rdfShow(p), p.String(), rdfShow(q), err)
					}
					return nil
				}); v != nil {
					return v
				}
			}
		}
	}
	c.agg.Exhaustive["nquads/hostile_bytes_per_position"] = int64(len(rdfHostile))
	return nil
}

// ---- canonicalisation ----

func rdfStmt(s, p, o, l string) *rdf.Statement {
	return &rdf.Statement{Subject: rdf.Term{Value: s}, Predicate: rdf.Term{Value: p}, Object: rdf.Term{Value: o}, Label: rdf.Term{Value: l}}
}

func rdfKey(s *rdf.Statement) string {
	return s.Subject.Value + "\x00" + s.Predicate.Value + "\x00" + s.Object.Value + "\x00" + s.Label.Value
}

func rdfSerialize(ds []*rdf.Statement) string {
	var b strings.Builder
	for _, s := range ds {
		if s == nil {
			b.WriteString("<nil statement>\n")
			continue
		}
		b.WriteString(s.String())
		b.WriteByte('\n')
	}
	return b.String()
}

// rdfSet removes duplicates (first occurrence kept).
func rdfSet(ds []*rdf.Statement) []*rdf.Statement {
	seen := map[string]bool{}
	var out []*rdf.Statement
	for _, s := range ds {
		if k := rdfKey(s); !seen[k] {
			seen[k] = true
			out = append(out, s)
		}
	}
	return out
}

func rdfIsBlank(v string) bool { return strings.HasPrefix(v, "_:") }

func rdfBlanks(ds []*rdf.Statement) []string {
	seen := map[string]bool{}
	var out []string
	for _, s := range ds {
		for _, v := range []string{s.Subject.Value, s.Object.Value, s.Label.Value} {
			if rdfIsBlank(v) && !seen[v] {
				seen[v] = true
				out = append(out, v)
			}
		}
	}
	sort.Strings(out)
	return out
}

func rdfRelabel(ds []*rdf.Statement, m map[string]string) []*rdf.Statement {
	tr := func(v string) string {
		if w, ok := m[v]; ok {
			return w
		}
		return v
	}
	out := make([]*rdf.Statement, len(ds))
	for i, s := range ds {
		out[i] = rdfStmt(tr(s.Subject.Value), s.Predicate.Value, tr(s.Object.Value), tr(s.Label.Value))
	}
	return out
}

// rdfBruteIso decides isomorphism of two datasets (sets of statements) by
// trying every bijection between their blank nodes. ok is false when there
// are too many blank nodes to enumerate.
func rdfBruteIso(a, b []*rdf.Statement) (iso, ok bool) {
	a, b = rdfSet(a), rdfSet(b)
	ba, bb := rdfBlanks(a), rdfBlanks(b)
	if len(a) != len(b) || len(ba) != len(bb) {
		return false, true
	}
	if len(ba) > 7 {
		return false, false
	}
	inB := map[string]bool{}
	for _, s := range b {
		inB[rdfKey(s)] = true
	}
	perm := make([]int, len(ba))
	usedP := make([]bool, len(ba))
	m := map[string]string{}
	var rec func(i int) bool
	rec = func(i int) bool {
		if i == len(ba) {
			for _, s := range rdfRelabel(a, m) {
				if !inB[rdfKey(s)] {
					return false
				}
			}
			return true // injective on statements because the relabelling is a bijection
		}
		for j := range bb {
			if usedP[j] {
				continue
			}
			usedP[j], perm[i] = true, j
			m[ba[i]] = bb[j]
			if rec(i + 1) {
				return true
			}
			usedP[j] = false
		}
		delete(m, ba[i])
		return false
	}
	return rec(0), true
}

type rdfCanonFn struct {
	name string
	f    func(ds []*rdf.Statement) (string, error)
}

var rdfHashes = []struct {
	name string
	new  func() hash.Hash
}{{"sha256", sha256.New}, {"md5", md5.New}, {"sha1", sha1.New}}

func rdfCanonFns(newHash func() hash.Hash) []rdfCanonFn {
	iso := func(decomp bool) func(ds []*rdf.Statement) (string, error) {
		return func(ds []*rdf.Statement) (string, error) {
			h := newHash()
			hashes, terms := rdf.IsoCanonicalHashes(ds, decomp, true, h, make([]byte, h.Size()))
			// dist=true: every blank node has its own hash (iso_canonical_test.go:83-88)
			seen := map[string]string{}
			for _, b := range rdfBlanks(ds) {
				hv, ok := hashes[b]
				if !ok {
					return "", fmt.Errorf("IsoCanonicalHashes returned no hash for %s", b)
				}
				if o, dup := seen[string(hv)]; dup {
					return "", fmt.Errorf("IsoCanonicalHashes(dist=true) gave %s and %s the same hash", o, b)
				}
				seen[string(hv)] = b
			}
			out, err := rdf.C14n(nil, ds, terms)
			if err != nil {
				return "", err
			}
			if len(out) != len(ds) {
				return "", fmt.Errorf("C14n returned %d statements for %d", len(out), len(ds))
			}
			return rdfSerialize(out), nil
		}
	}
	// dst is documented as the place the result goes ("dst and src may be the
	// same slice", length checked): what it held before is not an input. The
	// call is made with a nil dst and with a dst that holds the statements of
	// an earlier, unrelated canonicalization, and the two must agree.
	urna := func(f func(dst, src []*rdf.Statement) ([]*rdf.Statement, error)) func(ds []*rdf.Statement) (string, error) {
		return func(ds []*rdf.Statement) (string, error) {
			out, err := f(nil, ds)
			if err == nil && len(out) != len(ds) {
				err = fmt.Errorf("returned %d statements for %d", len(out), len(ds))
			}
			if err != nil {
				return rdfSerialize(out), err
			}
			for _, st := range ds {
				if st.Label.Value != "" {
					// with named graphs two calls may differ whatever dst
					// is (known finding 19); triples only from here on
					return rdfSerialize(out), nil
				}
			}
			used := make([]*rdf.Statement, len(ds))
			for i := range used {
				used[i] = rdfStmt("_:c14n9", "<ex:stale-p>", `"stale"`, []string{"<ex:stale-g>", "_:c14n7", ""}[i%3])
			}
			again, err := f(used, ds)
			if err != nil || rdfSerialize(again) != rdfSerialize(out) {
				return rdfSerialize(out), fmt.Errorf("the result depends on what dst held before the call: with a nil dst\n%s\nwith a used dst (err %v)\n%s", rdfSerialize(out), err, rdfSerialize(again))
			}
			return rdfSerialize(out), nil
		}
	}
	return []rdfCanonFn{
		{"URDNA2015", urna(rdf.URDNA2015)},
		{"URGNA2012", urna(rdf.URGNA2012)},
		{"C14n", iso(false)},
		{"C14n-decomp", iso(true)},
	}
}

var rdfPreds = []string{"<ex:p>", "<ex:q>", "<ex:r>"}
var rdfGround = []string{"<ex:s>", "<ex:o>", `"v"`, `"v"@en`, `"1"^^<http://www.w3.org/2001/XMLSchema#integer>`, `"a\nb"`, "<http://example.org/é>"}
var rdfGraphs = []string{"<ex:g1>", "<ex:g2>"}

// rdfDrawDataset draws a dataset with nb blank nodes _:b0.._:b(nb-1).
func rdfDrawDataset(c *Ctx) ([]*rdf.Statement, string) {
	t := c.T
	nb := t.Choose(simrt.KWorkload, 7)
	bl := func(i int) string { return fmt.Sprintf("_:b%d", i) }
	var ds []*rdf.Statement
	shape := "none"
	if nb > 0 {
		shape = []string{"random", "cycle", "star", "twins", "path", "undirected-cycle", "anchored", "cycle-with-hubs", "prism", "bipartite", "cycles"}[t.Choose(simrt.KWorkload, 11)]
	}
	p := rdfPreds[0]
	switch shape {
	// larger highly symmetric datasets (up to 10 blank nodes): the n-degree
	// hashing has to try several permutations at depth; invariance under
	// reordering and relabelling is still checked, the brute-force
	// non-isomorphism oracle is skipped above 7 blank nodes
	case "cycle-with-hubs":
		k := 2 * (2 + t.Choose(simrt.KWorkload, 3)) // cycle of 4, 6 or 8
		hubs := 1 + t.Choose(simrt.KWorkload, 2)
		nb = k + hubs
		for i := 0; i < k; i++ {
			ds = append(ds, rdfStmt(bl(i), p, bl((i+1)%k), ""))
			ds = append(ds, rdfStmt(bl(i), rdfPreds[1], bl(k+i%hubs), ""))
		}
	case "prism":
		k := 3 + t.Choose(simrt.KWorkload, 3) // two k-cycles joined rung by rung
		nb = 2 * k
		for i := 0; i < k; i++ {
			ds = append(ds, rdfStmt(bl(i), p, bl((i+1)%k), ""))
			ds = append(ds, rdfStmt(bl(k+i), p, bl(k+(i+1)%k), ""))
			ds = append(ds, rdfStmt(bl(i), rdfPreds[1], bl(k+i), ""))
		}
	case "bipartite":
		a, b := 2+t.Choose(simrt.KWorkload, 3), 2+t.Choose(simrt.KWorkload, 3)
		nb = a + b
		for i := 0; i < a; i++ {
			for j := 0; j < b; j++ {
				ds = append(ds, rdfStmt(bl(i), p, bl(a+j), ""))
			}
		}
	case "cycles":
		// a disjoint union of directed cycles of several lengths over one
		// predicate: every blank node has the same first-degree hash and the
		// same refinement hash, but nodes on cycles of different length are
		// not automorphic, so the canonical form has to be chosen among
		// genuinely different candidates (which one is the lowest depends on
		// the hash values, hence the choice of predicates)
		p = []string{"<ex:p>", "<ex:p0>", "<ex:p1>", "<ex:q>", "<ex:knows>", "<http://example.org/next>"}[t.Choose(simrt.KWorkload, 6)]
		nb = 0
		for k, m := 0, 2+t.Choose(simrt.KWorkload, 3); k < m && nb < 8; k++ {
			l := 1 + t.Choose(simrt.KWorkload, 3)
			for i := 0; i < l; i++ {
				ds = append(ds, rdfStmt(bl(nb+i), p, bl(nb+(i+1)%l), ""))
			}
			nb += l
		}
	case "cycle":
		for i := 0; i < nb; i++ {
			ds = append(ds, rdfStmt(bl(i), p, bl((i+1)%nb), ""))
		}
	case "undirected-cycle":
		for i := 0; i < nb; i++ {
			ds = append(ds, rdfStmt(bl(i), p, bl((i+1)%nb), ""), rdfStmt(bl((i+1)%nb), p, bl(i), ""))
		}
	case "star":
		for i := 1; i < nb; i++ {
			ds = append(ds, rdfStmt(bl(0), p, bl(i), ""))
		}
		if nb == 1 {
			ds = append(ds, rdfStmt(bl(0), p, rdfGround[1], ""))
		}
	case "path":
		for i := 0; i+1 < nb; i++ {
			ds = append(ds, rdfStmt(bl(i), p, bl(i+1), ""))
		}
		if nb == 1 {
			ds = append(ds, rdfStmt(bl(0), p, bl(0), ""))
		}
	case "twins":
		h := nb / 2
		if h == 0 {
			h = 1
		}
		// a small component and its copy
		var comp [][3]int // from, pred, to (to == -1-k: ground term k)
		m := 1 + t.Choose(simrt.KWorkload, 4)
		for i := 0; i < m; i++ {
			to := t.Choose(simrt.KWorkload, h+2)
			if to >= h {
				to = -1 - (to - h)
			}
			comp = append(comp, [3]int{t.Choose(simrt.KWorkload, h), t.Choose(simrt.KWorkload, 2), to})
		}
		for i := 0; i+1 < h; i++ {
			comp = append(comp, [3]int{i, 0, i + 1})
		}
		for copyN := 0; copyN < 2 && (copyN+1)*h <= nb; copyN++ {
			for _, e := range comp {
				o := ""
				if e[2] < 0 {
					o = rdfGround[-1-e[2]]
				} else {
					o = bl(copyN*h + e[2])
				}
				ds = append(ds, rdfStmt(bl(copyN*h+e[0]), rdfPreds[e[1]], o, ""))
			}
		}
		for i := 2 * h; i < nb; i++ {
			ds = append(ds, rdfStmt(bl(i), rdfPreds[2], rdfGround[0], ""))
		}
	case "anchored": // every blank node hangs on a ground term of its own; edges among them
		for i := 0; i < nb; i++ {
			ds = append(ds, rdfStmt(bl(i), rdfPreds[1], fmt.Sprintf("%q", fmt.Sprint(i)), ""))
		}
		for i, m := 0, 1+t.Choose(simrt.KWorkload, nb); i < m; i++ {
			ds = append(ds, rdfStmt(bl(t.Choose(simrt.KWorkload, nb)), p, bl(t.Choose(simrt.KWorkload, nb)), ""))
		}
	case "random":
		for i := 0; i < nb; i++ { // every blank node occurs
			ds = append(ds, rdfStmt(bl(i), rdfPreds[t.Choose(simrt.KWorkload, 3)], bl(t.Choose(simrt.KWorkload, nb)), ""))
		}
	}
	// decorations: ground statements, attachments that may or may not break the symmetry
	extra := t.Choose(simrt.KWorkload, 5)
	for i := 0; i < extra; i++ {
		var s, o string
		if nb > 0 && t.Choose(simrt.KWorkload, 2) == 1 {
			s = bl(t.Choose(simrt.KWorkload, nb))
		} else {
			s = rdfGround[t.Choose(simrt.KWorkload, 2)]
		}
		if nb > 0 && t.Choose(simrt.KWorkload, 3) == 2 {
			o = bl(t.Choose(simrt.KWorkload, nb))
		} else {
			o = rdfGround[t.Choose(simrt.KWorkload, len(rdfGround))]
		}
		ds = append(ds, rdfStmt(s, rdfPreds[t.Choose(simrt.KWorkload, 3)], o, ""))
	}
	// named graphs
	switch t.Choose(simrt.KWorkload, 6) {
	case 3: // some statements in a named graph
		for _, s := range ds {
			if t.Choose(simrt.KWorkload, 3) == 2 {
				s.Label.Value = rdfGraphs[t.Choose(simrt.KWorkload, 2)]
			}
		}
		shape += "+graphs"
	case 4: // the same triple in two graphs
		if len(ds) > 0 {
			s := ds[t.Choose(simrt.KWorkload, len(ds))]
			s.Label.Value = rdfGraphs[0]
			ds = append(ds, rdfStmt(s.Subject.Value, s.Predicate.Value, s.Object.Value, rdfGraphs[1]))
			if t.Choose(simrt.KWorkload, 2) == 1 {
				ds = append(ds, rdfStmt(s.Subject.Value, s.Predicate.Value, s.Object.Value, ""))
			}
			shape += "+triple-in-two-graphs"
		}
	case 5: // a blank node as graph name
		if nb > 0 {
			for _, s := range ds {
				if t.Choose(simrt.KWorkload, 3) == 2 {
					s.Label.Value = bl(t.Choose(simrt.KWorkload, nb))
				}
			}
			shape += "+blank-graph-names"
			if nb > 1 && t.Choose(simrt.KWorkload, 2) == 1 {
				// a self loop inside a graph named by another blank node:
				// subject and object are found under one entry, the graph
				// name has to be registered for the quad all the same
				a := t.Choose(simrt.KWorkload, nb)
				g := bl((a + 1 + t.Choose(simrt.KWorkload, nb-1)) % nb)
				if t.Choose(simrt.KWorkload, 2) == 1 {
					g = bl(nb) // a blank node that occurs nowhere else
				}
				ds = append(ds, rdfStmt(bl(a), rdfPreds[t.Choose(simrt.KWorkload, 3)], bl(a), g))
				shape += "+self-loop-in-blank-graph"
			}
		}
	}
	return rdfSet(ds), shape
}

func rdfPermute(t *simrt.Tape, ds []*rdf.Statement) []*rdf.Statement {
	out := append([]*rdf.Statement(nil), ds...)
	for i := len(out) - 1; i > 0; i-- {
		j := t.Choose(simrt.KFault, i+1)
		out[i], out[j] = out[j], out[i]
	}
	return out
}

var rdfFreshLabels = []string{"_:c14n0", "_:c14n1", "_:c14n2", "_:c14n3", "_:c14n4", "_:c14n5", "_:a", "_:z", "_:g", "_:b5", "_:b4", "_:b3", "_:b2", "_:b1", "_:b0", "_:x.y", "_:0"}

func runRDFC14n(c *Ctx) *Violation {
	t := c.T
	c.Declare("datasets_with_automorphism", "mutant_isomorphic", "mutant_non_isomorphic", "blank_graph_names", "triple_in_two_graphs", "duplicates_removed", "empty_dataset")
	orig, shape := rdfDrawDataset(c)
	hk := t.Choose(simrt.KWorkload, len(rdfHashes))
	newHash := rdfHashes[hk].new
	fns := rdfCanonFns(newHash)
	// datasets in the default graph only (triples), datasets with named graphs
	// (quads) and datasets whose graph names include blank nodes are reported
	// under separate signatures
	flavour := ""
	for _, s := range orig {
		if s.Label.Value != "" && flavour == "" {
			flavour = "+graphs"
		}
		if rdfIsBlank(s.Label.Value) {
			flavour = "+bgraphs" // a blank node names a graph
		}
	}
	if flavour == "+bgraphs" {
		// URGNA2012 normalises RDF graphs: it writes every blank graph name as
		// "_:g" and does not follow blank nodes in the graph name position
		// (urna.go:288-302, 421-453, after the specification's appendix), so
		// it does not promise one result for datasets whose graph names are
		// blank nodes. It is still run (no panic, deterministic statement
		// count) but not compared across variants.
		kept := fns[:0]
		for _, fn := range fns {
			if fn.name != "URGNA2012" {
				kept = append(kept, fn)
			}
		}
		fns = kept
		if v := c.Guard("URGNA2012+bgraphs/control", func() string { return rdfSerialize(orig) }, func() *Violation {
			out, err := rdf.URGNA2012(nil, append([]*rdf.Statement(nil), orig...))
			c.Case("control", false, hashString(rdfSerialize(orig)), 99)
			if err != nil || len(out) != len(orig) {
				return viol("rdf-c14n/URGNA2012+bgraphs/error", "URGNA2012 returned %d statements for %d, err=%v", len(out), len(orig), err)
			}
			return nil
		}); v != nil {
			return v
		}
	}
	for i := range fns {
		fns[i].name += flavour
	}
	c.Instance["dataset"] = fmt.Sprintf("%s, %d blank nodes, %d statements, %s", shape, len(rdfBlanks(orig)), len(orig), rdfHashes[hk].name)
	if strings.Contains(shape, "blank-graph") {
		c.Probe("blank_graph_names", 1)
	}
	if strings.Contains(shape, "two-graphs") {
		c.Probe("triple_in_two_graphs", 1)
	}
	if len(orig) == 0 {
		c.Probe("empty_dataset", 1)
	}
	ho := hashString(rdfSerialize(orig))
	desc := func(what string, ds []*rdf.Statement) func() string {
		return func() string { return what + ":\n" + rdfSerialize(ds) }
	}
	// does the dataset have a non-trivial automorphism? (informative)
	if bl := rdfBlanks(orig); len(bl) >= 2 {
		for i := 0; i < len(bl) && i < 2; i++ {
			for j := i + 1; j < len(bl); j++ {
				sw := rdfRelabel(orig, map[string]string{bl[i]: bl[j], bl[j]: bl[i]})
				same := true
				in := map[string]bool{}
				for _, s := range orig {
					in[rdfKey(s)] = true
				}
				for _, s := range sw {
					if !in[rdfKey(s)] {
						same = false
					}
				}
				if same {
					c.Probe("datasets_with_automorphism", 1)
					i, j = len(bl), len(bl)
				}
			}
		}
	}

	// ---- control: canonical forms of the original ----
	base := make([]string, len(fns))
	baseOK := make([]bool, len(fns))
	for i, fn := range fns {
		i, fn := i, fn
		if v := c.Guard(fn.name+"/control", desc("dataset", orig), func() *Violation {
			out, err := fn.f(append([]*rdf.Statement(nil), orig...))
			c.Case("control", false, ho, uint64(i))
			if err != nil {
				return viol("rdf-c14n/"+fn.name+"/error", "%s failed: %v\ndataset:\n%s", fn.name, err, rdfSerialize(orig))
			}
			out2, err := fn.f(append([]*rdf.Statement(nil), orig...))
			c.Oracle("deterministic")
			if err == nil && rdfOrderOnly(out, out2) {
				return viol("rdf-c14n/"+fn.name+"/nondeterministic-statement-order", "two calls on the same dataset return the same statements in a different order\ndataset:\n%s\nfirst:\n%s\nsecond:\n%s", rdfSerialize(orig), out, out2)
			}
			if err != nil || out2 != out {
				return viol("rdf-c14n/"+fn.name+"/nondeterministic", "two calls on the same dataset differ (err=%v)\ndataset:\n%s\nfirst:\n%s\nsecond:\n%s", err, rdfSerialize(orig), out, out2)
			}
			// the canonical form is a relabelling of the dataset
			c.Oracle("canonical-form-is-isomorphic")
			var parsed []*rdf.Statement
			for _, l := range strings.Split(strings.TrimSuffix(out, "\n"), "\n") {
				if l == "" {
					continue
				}
				s, err := rdf.ParseNQuad(l)
				if err != nil {
					return viol("rdf-c14n/"+fn.name+"/output-unparsable", "output line %q: %v", l, err)
				}
				parsed = append(parsed, s)
			}
			// every blank node of the output carries a canonical label: a
			// label of the input that survives makes the output depend on
			// the input's labelling
			c.Oracle("canonical-labels-only")
			for _, s := range parsed {
				for _, v := range []string{s.Subject.Value, s.Object.Value, s.Label.Value} {
					if rdfIsBlank(v) && !strings.HasPrefix(v, "_:c14n") {
						return viol("rdf-c14n/"+fn.name+"/input-label-in-output", "blank node %s of the output does not carry a canonical label\ndataset:\n%s\noutput:\n%s", v, rdfSerialize(orig), out)
					}
				}
			}
			// (URDNA2015/URGNA2012 rewrite literals and IRIs into their escaped normal form: compare after the same rewriting)
			if iso, ok := rdfBruteIso(rdfNormalTerms(orig), rdfNormalTerms(parsed)); ok && !iso {
				return viol("rdf-c14n/"+fn.name+"/not-a-relabelling", "the output is not isomorphic to the input\ndataset:\n%s\noutput:\n%s", rdfSerialize(orig), out)
			}
			base[i], baseOK[i] = out, true
			return nil
		}); v != nil {
			return v
		}
	}

	// ---- delivery-order faults ----
	type variant struct {
		kind string
		ds   []*rdf.Statement
		key  uint64
	}
	var variants []variant
	for r := 0; r < 2; r++ {
		variants = append(variants, variant{"reorder", rdfPermute(t, orig), uint64(r)})
	}
	{ // reversed
		rev := append([]*rdf.Statement(nil), orig...)
		for i, j := 0, len(rev)-1; i < j; i, j = i+1, j-1 {
			rev[i], rev[j] = rev[j], rev[i]
		}
		variants = append(variants, variant{"reorder", rev, 7})
	}
	if len(orig) > 0 { // duplicates, then Deduplicate as the API requires
		d := append([]*rdf.Statement(nil), orig...)
		nd := 1 + t.Choose(simrt.KFault, 3)
		for i := 0; i < nd; i++ {
			s := orig[t.Choose(simrt.KFault, len(orig))]
			if t.Choose(simrt.KFault, 2) == 0 {
				d = append(d, s) // the same statement value
			} else {
				d = append(d, rdfStmt(s.Subject.Value, s.Predicate.Value, s.Object.Value, s.Label.Value))
			}
		}
		d = rdfPermute(t, d)
		var dd []*rdf.Statement
		before := rdfSerialize(d)
		if v := c.Guard("Deduplicate"+flavour+"/dup", desc("dataset with duplicates", d), func() *Violation {
			dd = rdf.Deduplicate(append([]*rdf.Statement(nil), d...))
			c.Case("dup", true, ho, hashString(before), 0)
			c.Oracle("deduplicate")
			if len(rdfSet(dd)) != len(dd) {
				bad := dd
				dd = nil
				return viol("rdf-c14n/Deduplicate"+flavour+"/duplicates-remain", "Deduplicate left duplicates\ninput:\n%soutput:\n%s", before, rdfSerialize(bad))
			}
			if len(dd) != len(orig) {
				bad := dd
				dd = nil
				return viol("rdf-c14n/Deduplicate"+flavour+"/statements-lost", "Deduplicate returned %d statements, the set has %d\ninput:\n%soutput:\n%s", len(bad), len(orig), before, rdfSerialize(bad))
			}
			in := map[string]bool{}
			for _, s := range orig {
				in[rdfKey(s)] = true
			}
			for _, s := range dd {
				if s == nil || !in[rdfKey(s)] {
					bad := dd
					dd = nil
					return viol("rdf-c14n/Deduplicate"+flavour+"/statements-lost", "Deduplicate returned a statement that was not in the input: %v\ninput:\n%soutput:\n%s", rdfShow(s), before, rdfSerialize(bad))
				}
			}
			c.Probe("duplicates_removed", len(d)-len(dd))
			return nil
		}); v != nil {
			return v
		}
		if dd != nil {
			variants = append(variants, variant{"dup", dd, hashString(before)})
		}
	}
	if bl := rdfBlanks(orig); len(bl) > 0 { // fresh bijective relabelling (and a new order)
		for r := 0; r < 2; r++ {
			pool := append([]string(nil), rdfFreshLabels...)
			m := map[string]string{}
			for _, b := range bl {
				j := t.Choose(simrt.KFault, len(pool))
				m[b] = pool[j]
				pool = append(pool[:j], pool[j+1:]...)
			}
			variants = append(variants, variant{"reorder", rdfPermute(t, rdfRelabel(orig, m)), 100 + uint64(r)})
			variants[len(variants)-1].kind = "relabel"
		}
	}
	for vi, vr := range variants {
		vi, vr := vi, vr
		caseKind := vr.kind
		if caseKind == "relabel" {
			caseKind = "reorder" // a relabelled dataset is also delivered in a new order
		}
		hv := hashString(rdfSerialize(vr.ds))
		for i, fn := range fns {
			i, fn := i, fn
			if !baseOK[i] {
				continue
			}
			if v := c.Guard(fn.name+"/"+vr.kind, desc(vr.kind+" variant", vr.ds), func() *Violation {
				out, err := fn.f(append([]*rdf.Statement(nil), vr.ds...))
				c.Case(caseKind, true, ho, hv, uint64(i), uint64(vi))
				c.Oracle("canonical-form-invariant")
				if err != nil {
					return viol("rdf-c14n/"+fn.name+"/error", "%s failed on a %s variant: %v\nvariant:\n%s", fn.name, vr.kind, err, rdfSerialize(vr.ds))
				}
				if rdfOrderOnly(out, base[i]) {
					return viol("rdf-c14n/"+fn.name+"/variant-changes-statement-order", "%s returns the same statements in a different order for a dataset and its %s variant\ndataset:\n%svariant:\n%soutput for the dataset:\n%soutput for the variant:\n%s", fn.name, vr.kind, rdfSerialize(orig), rdfSerialize(vr.ds), base[i], out)
				}
				if out != base[i] {
					return viol("rdf-c14n/"+fn.name+"/variant-changes-output", "%s output differs between a dataset and its %s variant\ndataset:\n%svariant:\n%soutput for the dataset:\n%soutput for the variant:\n%s", fn.name, vr.kind, rdfSerialize(orig), rdfSerialize(vr.ds), base[i], out)
				}
				return nil
			}); v != nil {
				return v
			}
		}
		for _, decomp := range []bool{false, true} {
			decomp := decomp
			if v := c.Guard("Isomorphic"+flavour+"/"+vr.kind, desc(vr.kind+" variant", vr.ds), func() *Violation {
				got := rdf.Isomorphic(append([]*rdf.Statement(nil), orig...), append([]*rdf.Statement(nil), vr.ds...), decomp, newHash())
				c.Case(caseKind, true, ho, hv, 50, uint64(vi), rdfB2u(decomp))
				c.Oracle("isomorphic-true")
				if !got {
					return viol("rdf-c14n/Isomorphic"+flavour+"/isomorphic-rejected", "Isomorphic(dataset, %s variant, decomp=%v) = false\ndataset:\n%svariant:\n%s", vr.kind, decomp, rdfSerialize(orig), rdfSerialize(vr.ds))
				}
				return nil
			}); v != nil {
				return v
			}
		}
	}

	// ---- mutants: one edge moved / one term changed ----
	for r := 0; r < 5 && len(orig) > 0; r++ {
		mut := make([]*rdf.Statement, len(orig))
		for i, s := range orig {
			mut[i] = rdfStmt(s.Subject.Value, s.Predicate.Value, s.Object.Value, s.Label.Value)
		}
		s := mut[t.Choose(simrt.KFault, len(mut))]
		bl := rdfBlanks(orig)
		how := ""
		switch m := t.Choose(simrt.KFault, 6); {
		case m >= 4:
			// the statement moves to another graph (or two statements swap
			// graphs); half of the time a statement that involves a blank
			// node is preferred, since only those reach the node hashes
			if t.Choose(simrt.KFault, 2) == 1 {
				var withBlank []*rdf.Statement
				for _, x := range mut {
					if rdfIsBlank(x.Subject.Value) || rdfIsBlank(x.Object.Value) {
						withBlank = append(withBlank, x)
					}
				}
				if len(withBlank) > 0 {
					s = withBlank[t.Choose(simrt.KFault, len(withBlank))]
				}
			}
			if m == 5 {
				o := mut[t.Choose(simrt.KFault, len(mut))]
				s.Label.Value, o.Label.Value = o.Label.Value, s.Label.Value
				how = "graph labels of two statements swapped"
				if !rdfIsBlank(o.Subject.Value) && !rdfIsBlank(o.Object.Value) && !rdfIsBlank(s.Subject.Value) && !rdfIsBlank(s.Object.Value) {
					how += " (ground statements)"
				} else if rdfIsBlank(s.Subject.Value) || rdfIsBlank(o.Subject.Value) {
					how += " (a blank subject)"
				} else {
					how += " (blank objects only)"
				}
			} else {
				g := rdfGraphs[t.Choose(simrt.KFault, len(rdfGraphs))]
				if s.Label.Value == g {
					g = ""
				}
				s.Label.Value = g
				how = "graph label changed"
				switch {
				case rdfIsBlank(s.Subject.Value):
					how += " (blank subject)"
				case rdfIsBlank(s.Object.Value):
					how += " (blank object, ground subject)"
				default:
					how += " (ground statement)"
				}
			}
		case m == 3 && rdfIsBlank(s.Object.Value):
			// two edges rewired: this statement and another swap their objects
			o := mut[t.Choose(simrt.KFault, len(mut))]
			s.Object.Value, o.Object.Value = o.Object.Value, s.Object.Value
			how = "objects of two statements swapped"
		case m == 0 && rdfIsBlank(s.Object.Value) && len(bl) > 1:
			s.Object.Value = bl[t.Choose(simrt.KFault, len(bl))]
			how = "object moved"
		case m == 1 && rdfIsBlank(s.Subject.Value) && len(bl) > 1:
			s.Subject.Value = bl[t.Choose(simrt.KFault, len(bl))]
			how = "subject moved"
		case !rdfIsBlank(s.Object.Value):
			s.Object.Value = `"changed"`
			how = "object changed"
		default:
			s.Predicate.Value = "<ex:changed>"
			how = "predicate changed"
		}
		mut = rdfSet(mut)
		mut = rdfPermute(t, mut)
		iso, ok := rdfBruteIso(orig, mut)
		if !ok {
			continue
		}
		if iso {
			c.Probe("mutant_isomorphic", 1)
		} else {
			c.Probe("mutant_non_isomorphic", 1)
		}
		hm := hashString(rdfSerialize(mut))
		pair := func() string {
			return fmt.Sprintf("dataset:\n%smutant (%s):\n%s", rdfSerialize(orig), how, rdfSerialize(mut))
		}
		for i, fn := range fns {
			i, fn := i, fn
			if !baseOK[i] {
				continue
			}
			if v := c.Guard(fn.name+"/mutant", pair, func() *Violation {
				out, err := fn.f(append([]*rdf.Statement(nil), mut...))
				c.Case("reorder", true, ho, hm, uint64(i), 200)
				c.Oracle("canonical-form-separates")
				if err != nil {
					return viol("rdf-c14n/"+fn.name+"/error", "%s failed: %v\n%s", fn.name, err, pair())
				}
				if iso && rdfOrderOnly(out, base[i]) {
					return viol("rdf-c14n/"+fn.name+"/variant-changes-statement-order", "%s returns the same statements in a different order for two datasets that a blank node bijection maps onto each other\n%soutputs:\n%s---\n%s", fn.name, pair(), base[i], out)
				}
				if iso && out != base[i] {
					return viol("rdf-c14n/"+fn.name+"/variant-changes-output", "%s output differs for two datasets that a blank node bijection maps onto each other\n%soutputs:\n%s---\n%s", fn.name, pair(), base[i], out)
				}
				if !iso && out == base[i] {
					return viol("rdf-c14n/"+fn.name+"/collision", "%s output is identical for two datasets that no blank node bijection maps onto each other\n%soutput:\n%s", fn.name, pair(), out)
				}
				return nil
			}); v != nil {
				return v
			}
		}
		// "isomorphism hashing gives ... different output for non-isomorphic
		// ones": a statement with a blank node that moves to another graph
		// changes what that node is, so the node hashes of the two datasets
		// (sorted, without the labels) cannot be the same lists. Isomorphic
		// itself compares statements since finding 16 was repaired and no
		// longer shows whether the graph name reaches the hashes.
		if !iso && strings.HasPrefix(how, "graph label changed (blank") {
			if v := c.Guard("IsoCanonicalHashes"+flavour+"/mutant", pair, func() *Violation {
				list := func(ds []*rdf.Statement) string {
					h := newHash()
					hashes, _ := rdf.IsoCanonicalHashes(append([]*rdf.Statement(nil), ds...), false, true, h, make([]byte, h.Size()))
					var hs []string
					for _, v := range hashes {
						hs = append(hs, fmt.Sprintf("%x", v))
					}
					sort.Strings(hs)
					return strings.Join(hs, " ")
				}
				c.Case("reorder", true, ho, hm, 52)
				c.Oracle("hashes-separate-graph-names")
				if a, b := list(orig), list(mut); a == b && a != "" {
					return viol("rdf-c14n/IsoCanonicalHashes"+flavour+"/graph-name-not-hashed/"+strings.NewReplacer(" ", "-", "(", "", ")", "", ",", "").Replace(how), "IsoCanonicalHashes gives the same node hashes for two datasets that differ in the graph of a statement with a blank node\n%shashes: %s", pair(), a)
				}
				return nil
			}); v != nil {
				return v
			}
		}
		for _, decomp := range []bool{false, true} {
			decomp := decomp
			if v := c.Guard("Isomorphic"+flavour+"/mutant", pair, func() *Violation {
				got := rdf.Isomorphic(append([]*rdf.Statement(nil), orig...), append([]*rdf.Statement(nil), mut...), decomp, newHash())
				c.Case("reorder", true, ho, hm, 51, rdfB2u(decomp))
				c.Oracle("isomorphic-decides")
				if iso && !got {
					return viol("rdf-c14n/Isomorphic"+flavour+"/isomorphic-rejected", "Isomorphic(decomp=%v) = false for two datasets that a blank node bijection maps onto each other\n%s", decomp, pair())
				}
				if !iso && got {
					return viol("rdf-c14n/Isomorphic"+flavour+"/non-isomorphic-accepted/"+strings.NewReplacer(" ", "-", "(", "", ")", "", ",", "").Replace(how), "Isomorphic(decomp=%v) = true, but none of the %d! blank node bijections maps one dataset onto the other\n%s", decomp, len(bl), pair())
				}
				return nil
			}); v != nil {
				return v
			}
		}
	}
	return nil
}

// rdfOrderOnly reports whether two serialisations hold the same lines in a
// different order.
func rdfOrderOnly(a, b string) bool {
	la, lb := strings.Split(a, "\n"), strings.Split(b, "\n")
	sort.Strings(la)
	sort.Strings(lb)
	return a != b && strings.Join(la, "\n") == strings.Join(lb, "\n")
}

func rdfB2u(b bool) uint64 {
	if b {
		return 1
	}
	return 0
}

// rdfNormalTerms rewrites every literal and IRI into the form the term
// constructors produce (the form URDNA2015 and URGNA2012 write), so that a
// canonical output can be compared with its input up to blank node labels.
// Callers hold a Guard.
func rdfNormalTerms(ds []*rdf.Statement) []*rdf.Statement {
	norm := func(v string) string {
		if v == "" || rdfIsBlank(v) {
			return v
		}
		text, qual, kind, err := rdf.Term{Value: v}.Parts()
		if err != nil {
			return v
		}
		var t rdf.Term
		switch kind {
		case rdf.IRI:
			t, err = rdf.NewIRITerm(text)
		case rdf.Literal:
			t, err = rdf.NewLiteralTerm(text, qual)
		default:
			return v
		}
		if err != nil {
			return v
		}
		return t.Value
	}
	out := make([]*rdf.Statement, len(ds))
	for i, s := range ds {
		out[i] = rdfStmt(norm(s.Subject.Value), norm(s.Predicate.Value), norm(s.Object.Value), norm(s.Label.Value))
	}
	return out
}

// rdfRefUnescape decodes the ECHAR and UCHAR escapes of N-Quads
// (https://www.w3.org/TR/n-quads/#grammar-production-ECHAR), independently of
// package rdf.
func rdfRefUnescape(in string) (string, bool) {
	var b strings.Builder
	r := []rune(in)
	for i := 0; i < len(r); i++ {
		if r[i] != '\\' {
			b.WriteRune(r[i])
			continue
		}
		i++
		if i >= len(r) {
			return "", false
		}
		n := 0
		switch r[i] {
		case 't':
			b.WriteByte('\t')
		case 'b':
			b.WriteByte('\b')
		case 'n':
			b.WriteByte('\n')
		case 'r':
			b.WriteByte('\r')
		case 'f':
			b.WriteByte('\f')
		case '"':
			b.WriteByte('"')
		case '\'':
			b.WriteByte('\'')
		case '\\':
			b.WriteByte('\\')
		case 'u':
			n = 4
		case 'U':
			n = 8
		default:
			return "", false
		}
		if n > 0 {
			if i+n > len(r)-1 {
				return "", false
			}
			v, err := strconv.ParseUint(string(r[i+1:i+1+n]), 16, 32)
			if err != nil || v > 0x10FFFF || (v >= 0xD800 && v <= 0xDFFF) {
				// not a code point: the grammar accepts the escape, what it
				// decodes to is not stated anywhere - no opinion
				return "", false
			}
			b.WriteRune(rune(v))
			i += n
		}
	}
	return b.String(), true
}

// rdfRefParts splits a valid term's lexical form into text, qualifier and kind.
func rdfRefParts(v string) (text, qual string, kind rdf.Kind, ok bool) {
	switch {
	case strings.HasPrefix(v, "_:"):
		return v[2:], "", rdf.Blank, true
	case strings.HasPrefix(v, "<") && strings.HasSuffix(v, ">"):
		text, ok = rdfRefUnescape(v[1 : len(v)-1])
		return text, "", rdf.IRI, ok
	case strings.HasPrefix(v, `"`):
		// the closing quote is the last unescaped one
		end := -1
		for i := 1; i < len(v); i++ {
			if v[i] == '\\' {
				i++
				continue
			}
			if v[i] == '"' {
				end = i
				break
			}
		}
		if end < 0 {
			return "", "", 0, false
		}
		text, ok = rdfRefUnescape(v[1:end])
		if !ok {
			return "", "", 0, false
		}
		rest := v[end+1:]
		switch {
		case rest == "":
		case strings.HasPrefix(rest, "@"):
			qual = rest
		case strings.HasPrefix(rest, "^^<") && strings.HasSuffix(rest, ">"):
			qual, ok = rdfRefUnescape(rest[3 : len(rest)-1])
			if !ok {
				return "", "", 0, false
			}
		default:
			return "", "", 0, false
		}
		return text, qual, rdf.Literal, true
	}
	return "", "", 0, false
}
