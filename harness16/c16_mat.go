package main

import (
	"bytes"
	"encoding/binary"
	"errors"
	"fmt"
	"io"
	"math"
	"math/big"
	"strconv"
	"strings"

	"gonum.org/v1/gonum/blas/blas64"
	"gonum.org/v1/gonum/mat"
	"verif/simio"
	"verif/simrt"
)

// 6.1 mat binary form (mat/io.go).

var specialFloats = []float64{0, math.Copysign(0, -1), 1, -1, math.Inf(1), math.Inf(-1), math.NaN(),
	math.Float64frombits(0x7ff8000000000001), math.Float64frombits(0xfff4000000abcdef), // NaN payloads (quiet, signalling)
	math.SmallestNonzeroFloat64, -math.SmallestNonzeroFloat64, math.MaxFloat64, 0x1p-1022, 1.5, math.Pi}

func drawFloat(t *simrt.Tape) float64 {
	switch t.Choose(simrt.KValue, 3) {
	case 0:
		return float64(t.Choose(simrt.KValue, 21) - 10)
	case 1:
		return specialFloats[t.Choose(simrt.KValue, len(specialFloats))]
	}
	return math.Float64frombits(uint64(t.Choose(simrt.KValue, 1<<30))<<34 | uint64(t.Choose(simrt.KValue, 1<<30)))
}

func drawDims(t *simrt.Tape) (int, int) {
	switch t.Choose(simrt.KWorkload, 8) {
	case 6:
		return 64, 1
	case 7:
		return 1, 64
	}
	return 1 + t.Choose(simrt.KWorkload, 12), 1 + t.Choose(simrt.KWorkload, 12)
}

func drawDense(c *Ctx) *mat.Dense {
	t := c.T
	r, cl := drawDims(t)
	kind := t.Choose(simrt.KWorkload, 4)
	view := kind == 2
	if kind == 3 {
		// a matrix whose rows are contiguous (Stride == Cols) on a backing
		// slice longer than Rows*Cols: a grown view, or a raw matrix handed
		// in by the caller with spare elements after the last row
		c.Probe("spare_backing_value", 1)
		var m *mat.Dense
		if t.Choose(simrt.KWorkload, 2) == 0 && cl > 1 {
			// growing past the column capacity allocates capRows*cols elements
			base := mat.NewDense(r+1+t.Choose(simrt.KWorkload, 3), cl-1, nil)
			m = base.Slice(0, r, 0, cl-1).(*mat.Dense).Grow(0, 1).(*mat.Dense)
		} else {
			data := make([]float64, r*cl+1+t.Choose(simrt.KWorkload, 70))
			for i := range data {
				data[i] = drawFloat(t)
			}
			m = new(mat.Dense)
			m.SetRawMatrix(blas64.General{Rows: r, Cols: cl, Stride: cl, Data: data})
		}
		mr, mc := m.Dims()
		if raw := m.RawMatrix(); mr != r || mc != cl || raw.Stride != cl || len(raw.Data) <= r*cl {
			panic(fmt.Sprintf("harness: spare-backing matrix is %dx%d, wanted %dx%d", mr, mc, r, cl))
		}
		for i := 0; i < r; i++ {
			for j := 0; j < cl; j++ {
				m.Set(i, j, drawFloat(t))
			}
		}
		return m
	}
	if !view {
		m := mat.NewDense(r, cl, nil)
		for i := 0; i < r; i++ {
			for j := 0; j < cl; j++ {
				m.Set(i, j, drawFloat(t))
			}
		}
		return m
	}
	pr, pc := t.Choose(simrt.KWorkload, 3), 1+t.Choose(simrt.KWorkload, 3)
	big := mat.NewDense(r+pr+1, cl+pc+1, nil)
	br, bc := big.Dims()
	for i := 0; i < br; i++ {
		for j := 0; j < bc; j++ {
			big.Set(i, j, drawFloat(t))
		}
	}
	c.Probe("strided_view_value", 1)
	return big.Slice(pr, pr+r, 1, 1+cl).(*mat.Dense)
}

func denseBitsEqual(a, b mat.Matrix) bool {
	ar, ac := a.Dims()
	br, bc := b.Dims()
	if ar != br || ac != bc {
		return false
	}
	for i := 0; i < ar; i++ {
		for j := 0; j < ac; j++ {
			if math.Float64bits(a.At(i, j)) != math.Float64bits(b.At(i, j)) {
				return false
			}
		}
	}
	return true
}

const matHeader = 40

func hexHead(b []byte) string {
	if len(b) > matHeader {
		return fmt.Sprintf("header=%x data=%d bytes", b[:matHeader], len(b)-matHeader)
	}
	return fmt.Sprintf("%x", b)
}

// wellFormedDense checks an accepted decode of enc: dimensions and backing
// slice consistent, every element readable, and (the format being canonical)
// re-encoding reproduces enc exactly.
func wellFormedDense(m *mat.Dense, enc []byte) string {
	r, c := m.Dims()
	raw := m.RawMatrix()
	if r <= 0 || c <= 0 {
		return fmt.Sprintf("accepted with non-positive dimensions %dx%d", r, c)
	}
	if raw.Rows != r || raw.Cols != c || raw.Stride < c {
		return fmt.Sprintf("Dims %dx%d but RawMatrix{Rows:%d Cols:%d Stride:%d}", r, c, raw.Rows, raw.Cols, raw.Stride)
	}
	need := new(big.Int).Mul(big.NewInt(int64(r-1)), big.NewInt(int64(raw.Stride)))
	need.Add(need, big.NewInt(int64(c)))
	if need.Cmp(big.NewInt(int64(len(raw.Data)))) > 0 {
		return fmt.Sprintf("internally inconsistent object: Dims()=%dx%d (stride %d) needs %v elements but the backing slice has %d", r, c, raw.Stride, need, len(raw.Data))
	}
	if len(enc) != matHeader+8*r*c {
		return fmt.Sprintf("accepted %d bytes as a %dx%d matrix (needs %d)", len(enc), r, c, matHeader+8*r*c)
	}
	for i := 0; i < r; i++ {
		for j := 0; j < c; j++ {
			_ = m.At(i, j)
		}
	}
	re, err := m.MarshalBinary()
	if err != nil {
		return "accepted value does not re-encode: " + err.Error()
	}
	if !bytes.Equal(re, enc) {
		return "accepted encoding is not canonical: re-encoding the decoded value gives different bytes"
	}
	return ""
}

func wellFormedVec(v *mat.VecDense, enc []byte) string {
	n := v.Len()
	raw := v.RawVector()
	if n <= 0 {
		return fmt.Sprintf("accepted with non-positive length %d", n)
	}
	if raw.N != n || raw.Inc < 1 {
		return fmt.Sprintf("Len %d but RawVector{N:%d Inc:%d}", n, raw.N, raw.Inc)
	}
	need := new(big.Int).Mul(big.NewInt(int64(n-1)), big.NewInt(int64(raw.Inc)))
	need.Add(need, big.NewInt(1))
	if need.Cmp(big.NewInt(int64(len(raw.Data)))) > 0 {
		return fmt.Sprintf("internally inconsistent object: Len()=%d needs %v elements but the backing slice has %d", n, need, len(raw.Data))
	}
	if len(enc) != matHeader+8*n {
		return fmt.Sprintf("accepted %d bytes as a vector of %d (needs %d)", len(enc), n, matHeader+8*n)
	}
	re, err := v.MarshalBinary()
	if err != nil {
		return "accepted value does not re-encode: " + err.Error()
	}
	if !bytes.Equal(re, enc) {
		return "accepted encoding is not canonical"
	}
	return ""
}

// headerProduct classifies a (possibly corrupted) header for the stream
// decoder: the exact product of the dimension fields and the wrapped int64
// product the decoder computes.
func headerProduct(enc []byte, vec bool) (exact *big.Int, wrapped int64, negative bool) {
	rows := int64(binary.LittleEndian.Uint64(enc[8:16]))
	cols := int64(binary.LittleEndian.Uint64(enc[16:24]))
	if vec {
		if cols != 1 {
			return big.NewInt(0), 0, true // rejected before any size computation
		}
		return big.NewInt(rows), rows, rows < 0
	}
	return new(big.Int).Mul(big.NewInt(rows), big.NewInt(cols)), rows * cols, rows < 0 || cols < 0
}

const streamAllocLimit = 1 << 24

type matCodec struct {
	name      string
	vec       bool
	value     mat.Matrix
	encode    func() ([]byte, error)
	encodeTo  func(w io.Writer) (int, error)
	decode    func(b []byte) (wf string, err error)                       // byte-slice API into a fresh value; wf = well-formedness complaint of an accepted value
	decodeFr  func(r io.Reader, enc []byte) (n int, wf string, err error) // stream API
	equalTo   func(b []byte) (bool, error)                                // decode b and compare with the original value bit for bit
	equalFrom func(r io.Reader) (int, bool, error)
}

func denseCodec(m *mat.Dense) *matCodec {
	return &matCodec{name: "Dense", value: m,
		encode:   m.MarshalBinary,
		encodeTo: m.MarshalBinaryTo,
		decode: func(b []byte) (string, error) {
			var d mat.Dense
			if err := d.UnmarshalBinary(b); err != nil {
				return "", err
			}
			return wellFormedDense(&d, b), nil
		},
		decodeFr: func(r io.Reader, enc []byte) (int, string, error) {
			var d mat.Dense
			n, err := d.UnmarshalBinaryFrom(r)
			if err != nil {
				return n, "", err
			}
			if n > len(enc) {
				return n, fmt.Sprintf("returned n=%d for a %d-byte stream", n, len(enc)), nil
			}
			// a stream decoder consumes its own frame only: judge the bytes it read
			return n, wellFormedDense(&d, enc[:n]), nil
		},
		equalTo: func(b []byte) (bool, error) {
			var d mat.Dense
			if err := d.UnmarshalBinary(b); err != nil {
				return false, err
			}
			return denseBitsEqual(&d, m), nil
		},
		equalFrom: func(r io.Reader) (int, bool, error) {
			var d mat.Dense
			n, err := d.UnmarshalBinaryFrom(r)
			if err != nil {
				return n, false, err
			}
			return n, denseBitsEqual(&d, m), nil
		},
	}
}

func vecCodec(v *mat.VecDense) *matCodec {
	return &matCodec{name: "VecDense", vec: true, value: v,
		encode:   v.MarshalBinary,
		encodeTo: v.MarshalBinaryTo,
		decode: func(b []byte) (string, error) {
			var d mat.VecDense
			if err := d.UnmarshalBinary(b); err != nil {
				return "", err
			}
			return wellFormedVec(&d, b), nil
		},
		decodeFr: func(r io.Reader, enc []byte) (int, string, error) {
			var d mat.VecDense
			n, err := d.UnmarshalBinaryFrom(r)
			if err != nil {
				return n, "", err
			}
			if n > len(enc) {
				return n, fmt.Sprintf("returned n=%d for a %d-byte stream", n, len(enc)), nil
			}
			return n, wellFormedVec(&d, enc[:n]), nil
		},
		equalTo: func(b []byte) (bool, error) {
			var d mat.VecDense
			if err := d.UnmarshalBinary(b); err != nil {
				return false, err
			}
			return denseBitsEqual(&d, v), nil
		},
		equalFrom: func(r io.Reader) (int, bool, error) {
			var d mat.VecDense
			n, err := d.UnmarshalBinaryFrom(r)
			if err != nil {
				return n, false, err
			}
			return n, denseBitsEqual(&d, v), nil
		},
	}
}

func init() {
	register(&Scenario{Name: "mat-binary", Run: runMatBinary})
}

func runMatBinary(c *Ctx) *Violation {
	t := c.T
	c.Declare("strided_view_value", "spare_backing_value", "read_n>0_with_EOF", "zero_length_read", "rows_cols_product_wrapped_int64", "skipped_documented_large_allocation", "corrupted_header_accepted_wellformed", "framed_values")
	var cd *matCodec
	if t.Choose(simrt.KWorkload, 3) == 2 {
		n := 1 + t.Choose(simrt.KWorkload, 24)
		v := mat.NewVecDense(n, nil)
		for i := 0; i < n; i++ {
			v.SetVec(i, drawFloat(t))
		}
		if t.Choose(simrt.KWorkload, 3) == 2 {
			// a strided vector view: a column of a matrix
			m := mat.NewDense(n, 3, nil)
			for i := 0; i < n; i++ {
				for j := 0; j < 3; j++ {
					m.Set(i, j, drawFloat(t))
				}
			}
			v = m.ColView(1).(*mat.VecDense)
			c.Probe("strided_view_value", 1)
		}
		cd = vecCodec(v)
		c.Instance["value"] = fmt.Sprintf("VecDense n=%d inc=%d", v.Len(), v.RawVector().Inc)
	} else {
		m := drawDense(c)
		r, cl := m.Dims()
		cd = denseCodec(m)
		c.Instance["value"] = fmt.Sprintf("Dense %dx%d stride=%d", r, cl, m.RawMatrix().Stride)
	}
	name := cd.name
	tc := tapeChooser{t}

	// ---- the printed forms (mat/format.go): Formatted with every option
	// prints the value; a panic inside Format surfaces as "%!v(PANIC=" ----
	if cd.value != nil {
		if v := c.Guard(name+"/formatted", func() string { return fmt.Sprint(c.Instance["value"]) }, func() *Violation {
			c.Case("control", false, 555)
			c.Oracle("formatted-prints")
			r, cl := cd.value.Dims()
			for _, opts := range [][]mat.FormatOption{
				nil, {mat.Excerpt(1)}, {mat.Excerpt(2)}, {mat.Excerpt(3), mat.Squeeze()}, {mat.Prefix("  "), mat.Squeeze()},
				{mat.FormatMATLAB()}, {mat.FormatPython()}, {mat.FormatPython(), mat.Excerpt(1)}, {mat.DotByte('.')},
			} {
				for _, verb := range []string{"%v", "%.3g", "%#v", "%6.2f", "%e"} {
					out := fmt.Sprintf(verb, mat.Formatted(cd.value, opts...))
					if strings.Contains(out, "PANIC=") {
						return viol("mat-binary/"+name+"/formatted-panics", "fmt.Sprintf(%q, mat.Formatted(m, option set %d)) of a %dx%d matrix prints %s", verb, len(opts), r, cl, out)
					}
				}
			}
			// the one-line MATLAB and Python forms are text encodings of the
			// value: with %v (shortest representation that round-trips) the
			// numbers read back are the elements
			for k, opt := range []mat.FormatOption{mat.FormatMATLAB(), mat.FormatPython()} {
				out := fmt.Sprintf("%v", mat.Formatted(cd.value, opt))
				fields := strings.FieldsFunc(out, func(r rune) bool { return strings.ContainsRune("[];, \n", r) })
				if len(fields) != r*cl {
					return viol("mat-binary/"+name+"/formatted-text-roundtrip", "%s form of a %dx%d matrix holds %d numbers: %s", []string{"MATLAB", "Python"}[k], r, cl, len(fields), out)
				}
				for i, f := range fields {
					got, err := strconv.ParseFloat(f, 64)
					want := cd.value.At(i/cl, i%cl)
					if err != nil || !(got == want || (math.IsNaN(got) && math.IsNaN(want))) || math.Signbit(got) != math.Signbit(want) && !math.IsNaN(want) {
						return viol("mat-binary/"+name+"/formatted-text-roundtrip", "%s form printed with %%v: element (%d,%d) = %v is written %q (%v)\n%s", []string{"MATLAB", "Python"}[k], i/cl, i%cl, want, f, err, out)
					}
				}
			}
			return nil
		}); v != nil {
			return v
		}
	}

	// ---- control arm (no faults) ----
	var enc []byte
	if v := c.Guard(name+"/roundtrip", func() string { return fmt.Sprint(c.Instance["value"]) }, func() *Violation {
		var err error
		enc, err = cd.encode()
		c.Case("control", false, 1)
		if err != nil {
			return viol("mat-binary/"+name+"/roundtrip", "MarshalBinary failed: %v", err)
		}
		c.Oracle("roundtrip-bytes")
		ok, err := cd.equalTo(enc)
		if err != nil || !ok {
			return viol("mat-binary/"+name+"/roundtrip", "UnmarshalBinary(MarshalBinary(m)) != m (err=%v) for %v", err, c.Instance["value"])
		}
		// stream writer: same bytes, correct count
		w := &simio.Writer{Plan: simio.NoFaults()}
		n, err := cd.encodeTo(w)
		c.Case("control", false, 2)
		c.Oracle("marshal-to")
		if err != nil || n != len(enc) || !bytes.Equal(w.Buf, enc) || w.Accepted != n {
			return viol("mat-binary/"+name+"/marshal-to", "MarshalBinaryTo wrote %d bytes (returned n=%d, err=%v), MarshalBinary gives %d bytes; equal=%v", len(w.Buf), n, err, len(enc), bytes.Equal(w.Buf, enc))
		}
		// stream reader under every kind of benign chunking
		for k := 0; k < 4; k++ {
			plan := simio.NoFaults()
			plan.MaxChunk = []int{0, 1, 3, 9}[k]
			plan.ZeroReads = k >= 2
			plan.EOFWithData = k >= 1
			rd := &simio.Reader{Data: enc, Plan: plan, Ch: tc}
			n, ok, err := cd.equalFrom(rd)
			c.Case("chunk", k > 0, hashBytes(enc), uint64(k))
			c.Probe("read_n>0_with_EOF", rd.DataEOFs)
			c.Probe("zero_length_read", rd.ZeroReads)
			c.Oracle("unmarshal-from-chunked")
			if err != nil || !ok || n != len(enc) || rd.Delivered != n {
				return viol("mat-binary/"+name+"/unmarshal-from-chunked", "UnmarshalBinaryFrom over a reader delivering <=%d bytes per Read: n=%d (encoding %d bytes, delivered %d), equal=%v, err=%v", plan.MaxChunk, n, len(enc), rd.Delivered, ok, err)
			}
		}
		return nil
	}); v != nil {
		return v
	}
	encCopy := append([]byte(nil), enc...)
	// framing: several values back to back on one stream
	if v := c.Guard(name+"/framing", func() string { return "framed stream" }, func() *Violation {
		k := 2 + t.Choose(simrt.KWorkload, 3)
		var stream []byte
		var encs [][]byte
		var ms []*mat.Dense
		for i := 0; i < k; i++ {
			r, cl := 1+t.Choose(simrt.KWorkload, 4), 1+t.Choose(simrt.KWorkload, 4)
			m := mat.NewDense(r, cl, nil)
			for a := 0; a < r; a++ {
				for b := 0; b < cl; b++ {
					m.Set(a, b, drawFloat(t))
				}
			}
			e, _ := m.MarshalBinary()
			encs = append(encs, e)
			ms = append(ms, m)
			stream = append(stream, e...)
		}
		plan := simio.NoFaults()
		plan.MaxChunk = 1 + t.Choose(simrt.KFault, 16)
		plan.ZeroReads = true
		rd := &simio.Reader{Data: stream, Plan: plan, Ch: tc}
		total := 0
		c.Probe("framed_values", k)
		for i := 0; i < k; i++ {
			var d mat.Dense
			n, err := d.UnmarshalBinaryFrom(rd)
			total += n
			c.Case("chunk", true, hashBytes(stream), uint64(i), 77)
			c.Oracle("framing")
			if err != nil || n != len(encs[i]) || !denseBitsEqual(&d, ms[i]) || rd.Delivered != total {
				return viol("mat-binary/Dense/framing", "value %d of %d on one stream: n=%d (its encoding is %d bytes), reader delivered %d bytes in total (sum of n %d), equal=%v, err=%v", i, k, n, len(encs[i]), rd.Delivered, total, denseBitsEqual(&d, ms[i]), err)
			}
		}
		return nil
	}); v != nil {
		return v
	}

	// ---- fault arm ----
	desc := func(what string, b []byte) func() string {
		return func() string { return fmt.Sprintf("%s of %v: %s", what, c.Instance["value"], hexHead(b)) }
	}
	// eof@k: every truncation point
	for k := 0; k < len(enc); k++ {
		cut := enc[:k]
		if v := c.Guard(name+"/truncated", desc(fmt.Sprintf("truncation at %d", k), cut), func() *Violation {
			wf, err := cd.decode(cut)
			c.Case("eof@k", true, hashBytes(enc), uint64(k), 1)
			c.Oracle("truncated-bytes")
			if err == nil {
				return viol("mat-binary/"+name+"/truncated-accepted", "UnmarshalBinary accepted an encoding truncated from %d to %d bytes (%s)", len(enc), k, wf)
			}
			plan := simio.NoFaults()
			plan.EOFAt = k
			plan.MaxChunk = []int{0, 5}[k%2]
			plan.EOFWithData = true
			rd := &simio.Reader{Data: enc, Plan: plan, Ch: tc}
			n, _, err := cd.decodeFr(rd, cut)
			c.Case("eof@k", true, hashBytes(enc), uint64(k), 2)
			c.Oracle("truncated-stream")
			if err == nil {
				return viol("mat-binary/"+name+"/truncated-accepted", "UnmarshalBinaryFrom accepted a stream that ended after %d of %d bytes", k, len(enc))
			}
			if n != rd.Delivered {
				return viol("mat-binary/"+name+"/byte-count", "stream ended after %d bytes: UnmarshalBinaryFrom returned n=%d but %d bytes were delivered (err=%v)", k, n, rd.Delivered, err)
			}
			if k > 0 && !errors.Is(err, io.ErrUnexpectedEOF) {
				return viol("mat-binary/"+name+"/eof-error", "stream ended after %d of %d bytes: error is %q, documented io.ErrUnexpectedEOF", k, len(enc), err)
			}
			return nil
		}); v != nil {
			return v
		}
	}
	// err@k on read and on write: every byte position
	for k := 0; k <= len(enc); k++ {
		if v := c.Guard(name+"/io-error", desc(fmt.Sprintf("I/O error at %d", k), enc), func() *Violation {
			plan := simio.NoFaults()
			plan.ErrAt = k
			plan.ErrShort = k%2 == 1
			plan.MaxChunk = []int{0, 7}[(k/2)%2]
			rd := &simio.Reader{Data: enc, Plan: plan, Ch: tc}
			n, _, err := cd.decodeFr(rd, enc)
			c.Case("err@k.read", k < len(enc), hashBytes(enc), uint64(k))
			c.Oracle("read-error")
			if k < len(enc) {
				if !errors.Is(err, simio.ErrInjected) {
					return viol("mat-binary/"+name+"/read-error-lost", "reader failed after %d of %d bytes: UnmarshalBinaryFrom returned err=%v, want the reader's error", k, len(enc), err)
				}
				if n != rd.Delivered {
					return viol("mat-binary/"+name+"/byte-count", "reader failed after %d bytes: n=%d but %d bytes were delivered", k, n, rd.Delivered)
				}
				if rd.AfterEnd != 0 {
					return viol("mat-binary/"+name+"/read-after-error", "UnmarshalBinaryFrom called Read %d more time(s) after the reader returned an error", rd.AfterEnd)
				}
			} else if err != nil {
				return viol("mat-binary/"+name+"/read-past-end", "the whole encoding was delivered, yet UnmarshalBinaryFrom read on into the failing device: err=%v", err)
			}
			wplan := simio.NoFaults()
			wplan.ErrAt = k
			wplan.ErrShort = k%2 == 0
			w := &simio.Writer{Plan: wplan}
			wn, werr := cd.encodeTo(w)
			c.Case("err@k.write", k < len(enc), hashBytes(enc), uint64(k))
			c.Oracle("write-error")
			if k < len(enc) {
				if !errors.Is(werr, simio.ErrInjected) {
					return viol("mat-binary/"+name+"/write-error-lost", "writer failed after %d of %d bytes: MarshalBinaryTo returned err=%v", k, len(enc), werr)
				}
				if wn != w.Accepted {
					return viol("mat-binary/"+name+"/byte-count", "writer failed after %d bytes: MarshalBinaryTo returned n=%d but the device accepted %d", k, wn, w.Accepted)
				}
				if w.AfterEnd != 0 {
					return viol("mat-binary/"+name+"/write-after-error", "MarshalBinaryTo wrote %d more time(s) after the writer returned an error", w.AfterEnd)
				}
				if !bytes.Equal(w.Buf, enc[:len(w.Buf)]) {
					return viol("mat-binary/"+name+"/write-prefix", "bytes accepted before the failure are not a prefix of the encoding")
				}
			} else if werr != nil || wn != len(enc) {
				return viol("mat-binary/"+name+"/marshal-to", "writer with room for exactly the encoding: n=%d err=%v", wn, werr)
			}
			return nil
		}); v != nil {
			return v
		}
	}
	// bit rot: every bit of the header, sampled data bits
	try := func(kind string, cor []byte, key ...uint64) *Violation {
		kindDesc := kind
		if len(key) == 2 {
			kindDesc = fmt.Sprintf("%s byte %d bit %d", kind, key[0], key[1])
		}
		return c.Guard(name+"/corrupt", desc(kindDesc, cor), func() *Violation {
			exact, wrapped, neg := headerProduct(cor, cd.vec)
			if !neg && exact.Cmp(big.NewInt(wrapped)) != 0 {
				c.Probe("rows_cols_product_wrapped_int64", 1)
			}
			wf, err := cd.decode(cor)
			c.Case(kind, true, append([]uint64{hashBytes(enc), 1}, key...)...)
			c.Oracle("corrupt-bytes")
			if err == nil {
				if wf != "" {
					return viol("mat-binary/"+name+"/corrupt-accepted-inconsistent", "%s: UnmarshalBinary returned err=nil but %s [%s]", kind, wf, hexHead(cor))
				}
				c.Probe("corrupted_header_accepted_wellformed", 1)
				c.Outcome("corrupt.accepted_wellformed")
			} else {
				c.Outcome("corrupt.rejected")
			}
			if !neg && wrapped > streamAllocLimit {
				// documented: the stream decoder allocates what the header says
				c.Probe("skipped_documented_large_allocation", 1)
				return nil
			}
			rd := &simio.Reader{Data: cor, Plan: simio.NoFaults()}
			_, wf, err = cd.decodeFr(rd, cor)
			c.Case(kind, true, append([]uint64{hashBytes(enc), 2}, key...)...)
			c.Oracle("corrupt-stream")
			if err == nil && wf != "" {
				return viol("mat-binary/"+name+"/corrupt-accepted-inconsistent", "%s: UnmarshalBinaryFrom returned err=nil but %s [%s]", kind, wf, hexHead(cor))
			}
			return nil
		})
	}
	for off := 0; off < matHeader; off++ {
		for bit := uint(0); bit < 8; bit++ {
			if v := try("flip(header)", simio.Flip(enc, off, bit), uint64(off), uint64(bit)); v != nil {
				return v
			}
		}
	}
	c.agg.Exhaustive["mat-binary/header_bits_per_value"] = matHeader * 8
	for i := 0; i < 16 && len(enc) > matHeader; i++ {
		off := matHeader + t.Choose(simrt.KFault, len(enc)-matHeader)
		bit := uint(t.Choose(simrt.KFault, 8))
		if v := try("flip(data)", simio.Flip(enc, off, bit), uint64(off), uint64(bit)); v != nil {
			return v
		}
	}
	// the encoding handed out at the start must still be what it was
	c.Oracle("encoding-immutable")
	if !bytes.Equal(enc, encCopy) {
		return viol("mat-binary/"+name+"/encoding-changed-after-return", "the bytes returned by MarshalBinary were changed by later encoder/decoder calls")
	}
	// deliberate dimension rewrites whose product wraps around int64
	for i := 0; i < 6; i++ {
		cor := append([]byte(nil), enc...)
		rows := binary.LittleEndian.Uint64(cor[8:16])
		cols := binary.LittleEndian.Uint64(cor[16:24])
		k := uint(58 + t.Choose(simrt.KFault, 5))
		if t.Choose(simrt.KFault, 2) == 0 {
			rows |= 1 << k
		} else {
			cols |= 1 << k
		}
		if t.Choose(simrt.KFault, 4) == 3 {
			rows, cols = cols<<uint(t.Choose(simrt.KFault, 4)), rows|1<<62
		}
		binary.LittleEndian.PutUint64(cor[8:16], rows)
		binary.LittleEndian.PutUint64(cor[16:24], cols)
		if v := try("set(dimension fields)", cor, rows, cols); v != nil {
			return v
		}
	}
	return nil
}
