module verif/harness16

go 1.23.0

toolchain go1.23.5

require (
	gonum.org/v1/gonum v0.0.0
	verif/simio v0.0.0
	verif/simrt v0.0.0
)

replace verif/simrt => /verif/simrt

replace verif/simio => /verif/simio

replace gonum.org/v1/gonum => /repo
