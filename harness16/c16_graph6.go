package main

import (
	"fmt"
	"sort"

	"gonum.org/v1/gonum/graph"
	"gonum.org/v1/gonum/graph/encoding/digraph6"
	"gonum.org/v1/gonum/graph/encoding/graph6"
	"gonum.org/v1/gonum/graph/iterator"
	"gonum.org/v1/gonum/graph/simple"
	"verif/simio"
	"verif/simrt"
)

// 6.x graph6 / digraph6 strings (graph/encoding/graph6, graph/encoding/digraph6).
//
// Documented behaviour relied on:
//   - formats.txt (cited by both packages): N(n) header forms, bit order of the
//     upper triangle (graph6) / the full matrix row by row (digraph6), '&' prefix;
//   - IsValid: "An invalid Graph behaves as the null graph";
//   - graph.Graph / graph.Directed: "Nodes / From / To must not return nil";
//   - graph.Iterator: "Len returns the number of items remaining in the iterator",
//     "Reset returns the iterator to its start position".

type g6Codec struct {
	scen     string
	directed bool
	encode   func(graph.Graph) string
	valid    func(string) bool
	open     func(string) graph.Graph
	gostr    func(string) string
}

var g6Undirected = &g6Codec{scen: "graph6",
	encode: func(g graph.Graph) string { return string(graph6.Encode(g)) },
	valid:  func(s string) bool { return graph6.IsValid(graph6.Graph(s)) },
	open:   func(s string) graph.Graph { return graph6.Graph(s) },
	gostr:  func(s string) string { return graph6.Graph(s).GoString() },
}

var g6Directed = &g6Codec{scen: "digraph6", directed: true,
	encode: func(g graph.Graph) string { return string(digraph6.Encode(g)) },
	valid:  func(s string) bool { return digraph6.IsValid(digraph6.Graph(s)) },
	open:   func(s string) graph.Graph { return digraph6.Graph(s) },
	gostr:  func(s string) string { return digraph6.Graph(s).GoString() },
}

func init() {
	register(&Scenario{Name: "graph6", Run: func(c *Ctx) *Violation { return g6Run(c, g6Undirected) }})
	register(&Scenario{Name: "digraph6", Run: func(c *Ctx) *Violation { return g6Run(c, g6Directed) }})
}

// ---- reference model of the format (formats.txt), independent of gonum ----

// g6Ref is a string read according to the format description.
type g6Ref struct {
	ok     bool // structurally an encoding: prefix, printable range, complete header, data length as the header demands
	strict bool // ok, and canonical: shortest header form, padding bits zero
	n      int
	hdr    int // offset of the first data byte
}

func g6Slots(n int, directed bool) int {
	if directed {
		return n * n
	}
	return n * (n - 1) / 2
}

func g6Parse(s string, directed bool) g6Ref {
	var r g6Ref
	p := 0
	if directed {
		if len(s) == 0 || s[0] != '&' {
			return r
		}
		p = 1
	}
	for i := p; i < len(s); i++ {
		if s[i] < 63 || s[i] > 126 {
			return r
		}
	}
	rest := s[p:]
	if len(rest) == 0 {
		return r
	}
	var n int64
	form := 0
	switch {
	case rest[0] != 126:
		n, r.hdr = int64(rest[0]-63), p+1
	case len(rest) >= 4 && rest[1] != 126:
		n, r.hdr, form = int64(rest[1]-63)<<12|int64(rest[2]-63)<<6|int64(rest[3]-63), p+4, 1
	case len(rest) >= 8 && rest[1] == 126:
		for _, b := range []byte(rest[2:8]) {
			n = n<<6 | int64(b-63)
		}
		r.hdr, form = p+8, 2
	default:
		return r
	}
	if n > 1<<20 {
		// needs more than 2^36 data bytes: no string handled here is that long
		return r
	}
	r.n = int(n)
	slots := g6Slots(r.n, directed)
	if len(s)-r.hdr != (slots+5)/6 {
		return r
	}
	r.ok = true
	r.strict = (form == 0) || (form == 1 && n >= 63) || (form == 2 && n >= 258048)
	if pad := (len(s)-r.hdr)*6 - slots; pad > 0 && (s[len(s)-1]-63)&(1<<uint(pad)-1) != 0 {
		r.strict = false
	}
	return r
}

// g6Slot is the position of u->v (u--v) in the bit vector of an order n graph.
func g6Slot(u, v, n int, directed bool) int {
	if directed {
		return u*n + v
	}
	if u > v {
		u, v = v, u
	}
	return v*(v-1)/2 + u // (0,1),(0,2),(1,2),(0,3),...
}

func g6RefEdge(s string, r g6Ref, directed bool, u, v int) bool {
	i := g6Slot(u, v, r.n, directed)
	return (s[r.hdr+i/6]-63)&(1<<uint(5-i%6)) != 0
}

func g6RefEncode(n int, adj [][]bool, directed bool) string {
	var b []byte
	if directed {
		b = append(b, '&')
	}
	if n < 63 {
		b = append(b, byte(n)+63)
	} else {
		b = append(b, 126, byte(n>>12&63)+63, byte(n>>6&63)+63, byte(n&63)+63)
	}
	slots := g6Slots(n, directed)
	data := make([]byte, (slots+5)/6)
	for u := 0; u < n; u++ {
		for v := 0; v < n; v++ {
			if u == v || !adj[u][v] || (!directed && u > v) {
				continue
			}
			i := g6Slot(u, v, n, directed)
			data[i/6] |= 1 << uint(5-i%6)
		}
	}
	for _, d := range data {
		b = append(b, d+63)
	}
	return string(b)
}

// ---- workload ----

var g6ModeNames = []string{"enumerated n<=5", "header boundary n=62..64", "medium (encoding <= 40 bytes)", "large n<=70"}
var g6DensityNames = []string{"empty", "1/8", "1/2", "7/8", "complete"}

func g6Word(t *simrt.Tape, dens int) uint32 {
	w := func() uint32 { return uint32(t.Choose(simrt.KValue, 1<<30)) }
	switch dens {
	case 0:
		return 0
	case 1:
		return w() & w() & w()
	case 2:
		return w()
	case 3:
		return w() | w() | w()
	}
	return 1<<30 - 1
}

func g6Draw(c *Ctx, directed bool) (int, [][]bool) {
	t := c.T
	mode := t.Choose(simrt.KWorkload, 4)
	var n int
	pairs := func(n int) int {
		if directed {
			return n * (n - 1)
		}
		return n * (n - 1) / 2
	}
	newAdj := func(n int) [][]bool {
		adj := make([][]bool, n)
		for i := range adj {
			adj[i] = make([]bool, n)
		}
		return adj
	}
	// put assigns the k-th free slot (no loops; one slot per unordered pair when undirected)
	fill := func(adj [][]bool, bit func(k int) bool) {
		k := 0
		for u := 0; u < len(adj); u++ {
			for v := 0; v < len(adj); v++ {
				if u == v || (!directed && v < u) {
					continue
				}
				if bit(k) {
					adj[u][v] = true
					if !directed {
						adj[v][u] = true
					}
				}
				k++
			}
		}
	}
	c.Instance["mode"] = g6ModeNames[mode]
	if mode == 0 {
		n = t.Choose(simrt.KWorkload, 6)
		idx := t.Choose(simrt.KValue, 1<<uint(pairs(n)))
		adj := newAdj(n)
		fill(adj, func(k int) bool { return idx>>uint(k)&1 != 0 })
		c.Instance["n"] = n
		c.Instance["graph_index"] = idx
		return n, adj
	}
	switch mode {
	case 1:
		n = 62 + t.Choose(simrt.KWorkload, 3)
	case 2:
		if directed {
			n = 6 + t.Choose(simrt.KWorkload, 10) // 6..15
		} else {
			n = 6 + t.Choose(simrt.KWorkload, 17) // 6..22
		}
	default:
		n = 6 + t.Choose(simrt.KWorkload, 65) // 6..70
	}
	dens := t.Choose(simrt.KValue, len(g6DensityNames))
	adj := newAdj(n)
	var word uint32
	have := 0
	fill(adj, func(int) bool {
		if have == 0 {
			word, have = g6Word(t, dens), 30
		}
		b := word&1 != 0
		word >>= 1
		have--
		return b
	})
	c.Instance["n"] = n
	c.Instance["density"] = g6DensityNames[dens]
	return n, adj
}

// g6Build builds the graph with the given adjacency over nodes whose IDs are
// ids[0] < ids[1] < ...: "Encode returns a graph6 encoding of the topology of
// the given graph using a lexical ordering of the nodes by ID to map them to
// [0, n)".
func g6Build(n int, adj [][]bool, directed bool, ids []int64) graph.Graph {
	if directed {
		g := simple.NewDirectedGraph()
		for i := 0; i < n; i++ {
			g.AddNode(simple.Node(ids[i]))
		}
		for u := 0; u < n; u++ {
			for v := 0; v < n; v++ {
				if adj[u][v] {
					g.SetEdge(simple.Edge{F: simple.Node(ids[u]), T: simple.Node(ids[v])})
				}
			}
		}
		return g
	}
	g := simple.NewUndirectedGraph()
	for i := 0; i < n; i++ {
		g.AddNode(simple.Node(ids[i]))
	}
	for u := 0; u < n; u++ {
		for v := u + 1; v < n; v++ {
			if adj[u][v] {
				g.SetEdge(simple.Edge{F: simple.Node(ids[u]), T: simple.Node(ids[v])})
			}
		}
	}
	return g
}

// g6Looped is a graph with self loops at some nodes on top of a simple graph.
type g6Looped struct {
	graph.Graph
	loops map[int64]bool
}

func (g g6Looped) From(id int64) graph.Nodes {
	nodes := graph.NodesOf(g.Graph.From(id))
	if g.loops[id] {
		nodes = append(nodes, g.Graph.Node(id))
	}
	return iterator.NewOrderedNodes(nodes)
}

func (g g6Looped) HasEdgeBetween(x, y int64) bool {
	return (x == y && g.loops[x]) || g.Graph.HasEdgeBetween(x, y)
}

func g6Show(s string) string {
	if len(s) <= 48 {
		return fmt.Sprintf("Graph(%q)", s)
	}
	return fmt.Sprintf("Graph(%q...), %d bytes, hash %#x", s[:24], len(s), hashString(s))
}

// ---- iterator contract ----

// g6Drain walks it twice (with a Reset in between) and checks the Iterator
// contract. It returns the IDs in sorted order.
func g6Drain(it graph.Nodes, limit int) ([]int64, string) {
	if it == nil {
		return nil, "returned nil (documented: must not return nil)"
	}
	pass := func() ([]int64, string) {
		var ids []int64
		var lens []int
		for {
			lens = append(lens, it.Len())
			if !it.Next() {
				break
			}
			nd := it.Node()
			if nd == nil {
				return nil, fmt.Sprintf("Next() returned true but Node() is nil (item %d)", len(ids))
			}
			ids = append(ids, nd.ID())
			if len(ids) > limit {
				return nil, fmt.Sprintf("iterator yields more than %d items", limit)
			}
		}
		for i, l := range lens {
			// a negative Len means "unknown" and is allowed
			if l >= 0 && l != len(ids)-i {
				return nil, fmt.Sprintf("Len() = %d with %d items remaining (after %d of %d items)", l, len(ids)-i, i, len(ids))
			}
		}
		if it.Next() {
			return nil, "Next() returned true again after returning false"
		}
		sort.Slice(ids, func(i, j int) bool { return ids[i] < ids[j] })
		for i := 1; i < len(ids); i++ {
			if ids[i] == ids[i-1] {
				return nil, fmt.Sprintf("node %d is yielded twice", ids[i])
			}
		}
		return ids, ""
	}
	a, why := pass()
	if why != "" {
		return nil, why
	}
	it.Reset()
	b, why := pass()
	if why != "" {
		return nil, "after Reset: " + why
	}
	if !g6SameIDs(a, b) {
		return nil, fmt.Sprintf("after Reset the iterator yields %v, before it yielded %v", b, a)
	}
	return a, ""
}

func g6SameIDs(a, b []int64) bool {
	if len(a) != len(b) {
		return false
	}
	for i := range a {
		if a[i] != b[i] {
			return false
		}
	}
	return true
}

// ---- oracles ----

// g6CheckValid checks a string that IsValid accepts as a graph of order n whose
// edges are given by ref, on the given rows of the adjacency matrix. With
// diagFromGraph the diagonal (loops, which digraph6 strings can carry and
// gonum does not expose) is only checked for internal consistency.
// deferred is a finding that is reported only when nothing else fails.
func g6CheckValid(c *Ctx, cd *g6Codec, arm, what, s string, n int, ref func(u, v int) bool, rows []int, diagFromGraph, probeMissing bool) (v, deferred *Violation) {
	g := cd.open(s)
	bad := func(o, format string, a ...interface{}) *Violation {
		return viol(cd.scen+"/Graph/"+arm+"-"+o, "%s%s: %s", what, g6Show(s), fmt.Sprintf(format, a...))
	}
	// the %#v form, "order:bit vector" (as the package's tests spell it)
	if gs, p := g6GoString(cd, s); p != nil {
		return bad("gostring", "GoString panics: %v", p), nil
	} else if n <= 12 {
		var bits []byte
		if cd.directed {
			for u := 0; u < n; u++ {
				for v := 0; v < n; v++ {
					bits = append(bits, "01"[g6b2i(ref(u, v))])
				}
			}
		} else {
			for v := 1; v < n; v++ {
				for u := 0; u < v; u++ {
					bits = append(bits, "01"[g6b2i(ref(u, v))])
				}
			}
		}
		if len(bits) == 0 {
			bits = []byte("0")
		}
		c.Oracle(arm + "-gostring")
		if want := fmt.Sprintf("%d:%s", n, bits); gs != want {
			return bad("gostring", "GoString() = %q, the adjacency bits read by the format description give %q", gs, want), nil
		}
	}
	c.Oracle(arm + "-nodes")
	ids, why := g6Drain(g.Nodes(), n+8)
	if why != "" {
		return bad("nodes", "Nodes(): %s", why), nil
	}
	if len(ids) != n {
		return bad("nodes", "Nodes() yields %d nodes, the header says %d", len(ids), n), nil
	}
	for i, id := range ids {
		if id != int64(i) {
			return bad("nodes", "Nodes() yields IDs %v, want 0..%d", ids, n-1), nil
		}
		if nd := g.Node(id); nd == nil || nd.ID() != id {
			return bad("nodes", "Node(%d) = %v in a graph of order %d", id, nd, n), nil
		}
	}
	for _, id := range []int64{-1, int64(n)} {
		if nd := g.Node(id); nd != nil {
			return bad("nodes", "Node(%d) = %v in a graph of order %d, want nil", id, nd, n), nil
		}
	}
	dg, _ := g.(graph.Directed)
	ug, _ := g.(graph.Undirected)
	c.Oracle(arm + "-edges")
	for _, u := range rows {
		var wantFrom, wantTo []int64
		for w := 0; w < n; w++ {
			uid, wid := int64(u), int64(w)
			var out, in bool // u->w, w->u
			switch {
			case u != w:
				out, in = ref(u, w), ref(w, u)
			case diagFromGraph && dg != nil:
				out = dg.HasEdgeFromTo(uid, uid)
				in = out
			}
			hb, hbr := g.HasEdgeBetween(uid, wid), g.HasEdgeBetween(wid, uid)
			if hb != (out || in) || hbr != hb {
				return bad("edges", "HasEdgeBetween(%d,%d)=%v HasEdgeBetween(%d,%d)=%v; the bit vector has %d->%d %v and %d->%d %v", u, w, hb, w, u, hbr, u, w, out, w, u, in), nil
			}
			wantEdge := out || in
			if dg != nil {
				wantEdge = out
				if got := dg.HasEdgeFromTo(uid, wid); got != out {
					return bad("edges", "HasEdgeFromTo(%d,%d)=%v, the bit vector says %v", u, w, got, out), nil
				}
			}
			e := g.Edge(uid, wid)
			if (e != nil) != wantEdge {
				return bad("edges", "Edge(%d,%d)=%v, want an edge: %v", u, w, e, wantEdge), nil
			}
			if e != nil && (e.From().ID() != uid || e.To().ID() != wid) {
				return bad("edges", "Edge(%d,%d) has end points %d,%d", u, w, e.From().ID(), e.To().ID()), nil
			}
			if ug != nil {
				if eb := ug.EdgeBetween(uid, wid); (eb != nil) != wantEdge {
					return bad("edges", "EdgeBetween(%d,%d)=%v, want an edge: %v", u, w, eb, wantEdge), nil
				}
			}
			if wantEdge {
				wantFrom = append(wantFrom, wid)
			}
			if in {
				wantTo = append(wantTo, wid)
			}
		}
		from, why := g6Drain(g.From(int64(u)), n+8)
		if why != "" {
			return bad("from", "From(%d): %s", u, why), nil
		}
		if !g6SameIDs(from, wantFrom) {
			return bad("from", "From(%d) yields %v, HasEdge* and the bit vector give %v", u, from, wantFrom), nil
		}
		if dg != nil {
			to, why := g6Drain(dg.To(int64(u)), n+8)
			if why != "" {
				return bad("to", "To(%d): %s", u, why), nil
			}
			if !g6SameIDs(to, wantTo) {
				return bad("to", "To(%d) yields %v, HasEdgeFromTo and the bit vector give %v (From and To must mirror each other)", u, to, wantTo), nil
			}
		}
	}
	if !probeMissing {
		return nil, nil
	}
	// IDs that are not in the graph
	c.Oracle(arm + "-missing-node")
	for _, id := range []int64{int64(n), -1} {
		for _, other := range []int64{0, int64(n) - 1} {
			if g.HasEdgeBetween(id, other) || g.HasEdgeBetween(other, id) || g.Edge(id, other) != nil || g.Edge(other, id) != nil {
				return bad("edges", "an edge between %d and the missing node %d is reported in a graph of order %d", other, id, n), nil
			}
			if dg != nil && (dg.HasEdgeFromTo(id, other) || dg.HasEdgeFromTo(other, id)) {
				return bad("edges", "HasEdgeFromTo reports an edge between %d and the missing node %d in a graph of order %d", other, id, n), nil
			}
		}
		its := []struct {
			name string
			it   func() graph.Nodes
		}{{"From", func() graph.Nodes { return g.From(id) }}}
		if dg != nil {
			its = append(its, struct {
				name string
				it   func() graph.Nodes
			}{"To", func() graph.Nodes { return dg.To(id) }})
		}
		for _, x := range its {
			it := x.it()
			if it == nil {
				if deferred == nil {
					deferred = viol(cd.scen+"/Graph/"+x.name+"-nil-for-missing-node", "%s.%s(%d) == nil for a valid graph of order %d; graph.Graph documents \"%s must not return nil\" (simple graphs and the invalid-string path return graph.Empty)", g6Show(s), x.name, id, n, x.name)
				}
				continue
			}
			if it.Len() > 0 || it.Next() {
				return bad(x.name, "%s(%d) of a node that is not in the graph (order %d) is not empty", x.name, id, n), nil
			}
		}
	}
	return nil, deferred
}

// g6CheckNull checks that a string IsValid rejects behaves as the null graph.
func g6b2i(b bool) int {
	if b {
		return 1
	}
	return 0
}

func g6GoString(cd *g6Codec, s string) (out string, panicked interface{}) {
	defer func() { panicked = recover() }()
	return cd.gostr(s), nil
}

func g6CheckNull(c *Ctx, cd *g6Codec, what, s string, n0 int) *Violation {
	g := cd.open(s)
	bad := func(format string, a ...interface{}) *Violation {
		return viol(cd.scen+"/Graph/invalid-not-null-graph", "%s%s is not valid, documented to behave as the null graph: %s", what, g6Show(s), fmt.Sprintf(format, a...))
	}
	c.Oracle("invalid-is-null-graph")
	// the %#v form of an invalid string: anything but a panic
	if _, p := g6GoString(cd, s); p != nil {
		return viol(cd.scen+"/Graph/gostring-panics-for-invalid", "%s%s is not valid and its GoString method panics: %v", what, g6Show(s), p)
	}
	empty := func(name string, it graph.Nodes) *Violation {
		if it == nil {
			return bad("%s returned nil", name)
		}
		if l := it.Len(); l != 0 {
			return bad("%s.Len() = %d", name, l)
		}
		if it.Next() {
			return bad("%s.Next() = true", name)
		}
		return nil
	}
	if v := empty("Nodes()", g.Nodes()); v != nil {
		return v
	}
	dg, _ := g.(graph.Directed)
	ug, _ := g.(graph.Undirected)
	ids := []int64{0, 1, -1, int64(n0) - 1, int64(n0)}
	for _, x := range ids {
		if nd := g.Node(x); nd != nil {
			return bad("Node(%d) = %v", x, nd)
		}
		if v := empty(fmt.Sprintf("From(%d)", x), g.From(x)); v != nil {
			return v
		}
		if dg != nil {
			if v := empty(fmt.Sprintf("To(%d)", x), dg.To(x)); v != nil {
				return v
			}
		}
		for _, y := range ids {
			if g.HasEdgeBetween(x, y) {
				return bad("HasEdgeBetween(%d,%d) = true", x, y)
			}
			if e := g.Edge(x, y); e != nil {
				return bad("Edge(%d,%d) = %v", x, y, e)
			}
			if dg != nil && dg.HasEdgeFromTo(x, y) {
				return bad("HasEdgeFromTo(%d,%d) = true", x, y)
			}
			if ug != nil {
				if e := ug.EdgeBetween(x, y); e != nil {
					return bad("EdgeBetween(%d,%d) = %v", x, y, e)
				}
			}
		}
	}
	return nil
}

func g6AllRows(n int) []int {
	rows := make([]int, n)
	for i := range rows {
		rows[i] = i
	}
	return rows
}

// g6RowsFor selects the rows of the adjacency matrix to check for a valid
// string damaged at byte pos: all of them for small graphs, otherwise the rows
// whose bits live in that byte, the first and last row, and two rows derived
// from (pos, b).
func g6RowsFor(r g6Ref, directed bool, pos, b int) []int {
	n := r.n
	if n <= 10 || pos < r.hdr {
		return g6AllRows(n)
	}
	in := map[int]bool{0: true, n - 1: true, (pos*7 + b) % n: true, (pos + 3*b + 1) % n: true}
	for k := (pos - r.hdr) * 6; k < (pos-r.hdr)*6+6; k++ {
		if directed {
			if k < n*n {
				in[k/n], in[k%n] = true, true
			}
			continue
		}
		// invert v*(v-1)/2 + u
		v := 1
		for (v+1)*v/2 <= k {
			v++
		}
		if v < n {
			in[v], in[k-v*(v-1)/2] = true, true
		}
	}
	var rows []int
	for u := 0; u < n; u++ {
		if in[u] {
			rows = append(rows, u)
		}
	}
	return rows
}

// g6CheckDamaged is the oracle for one damaged string.
func g6CheckDamaged(c *Ctx, cd *g6Codec, what, d string, n0 int, truncated bool, pos, b int) *Violation {
	r := g6Parse(d, cd.directed)
	valid := cd.valid(d)
	c.Oracle("isvalid-vs-format")
	switch {
	case truncated && valid && !r.ok:
		return viol(cd.scen+"/Graph/truncated-accepted", "%sIsValid(%s) = true", what, g6Show(d))
	case valid && !r.ok:
		return viol(cd.scen+"/Graph/isvalid-accepts-malformed", "%sIsValid(%s) = true, but the string is not an encoding (prefix, byte range 63..126, header form, or data length for the order in the header)", what, g6Show(d))
	case !valid && r.strict:
		return viol(cd.scen+"/Graph/isvalid-rejects-wellformed", "%sIsValid(%s) = false, but the string is the canonical encoding of a graph of order %d", what, g6Show(d), r.n)
	}
	if !valid {
		c.Outcome("damaged.rejected")
		if r.ok {
			c.Outcome("damaged.rejected.noncanonical")
		}
		c.Probe("damaged_string_invalid", 1)
		return g6CheckNull(c, cd, what, d, n0)
	}
	c.Outcome("damaged.accepted")
	if !r.strict {
		c.Outcome("damaged.accepted.noncanonical")
		c.Probe("noncanonical_accepted", 1)
	}
	c.Probe("damaged_string_still_valid", 1)
	v, _ := g6CheckValid(c, cd, "damaged", what, d, r.n, func(u, v int) bool { return g6RefEdge(d, r, cd.directed, u, v) },
		g6RowsFor(r, cd.directed, pos, b), true, false)
	return v
}

func g6Run(c *Ctx, cd *g6Codec) *Violation {
	t := c.T
	n, adj := g6Draw(c, cd.directed)
	c.Declare("undirected_graph_with_self_loops", "hand_written_long_header", "longer_header_form_with_data", "node_ids_not_0_to_n-1", "negative_ids_with_largest_n-1", "header_4_byte_form", "damaged_string_still_valid", "damaged_string_invalid", "noncanonical_accepted", "substitution_exhaustive", "substitution_sampled")
	// node IDs of the graph handed to Encode: 0..n-1, or any increasing
	// sequence (negative, with gaps, far from zero)
	ids := make([]int64, n)
	for i := range ids {
		ids[i] = int64(i)
	}
	switch t.Choose(simrt.KWorkload, 4) {
	case 2:
		if n > 0 {
			id := int64(-t.Choose(simrt.KValue, n+3))
			for i := range ids {
				ids[i] = id
				id += 1 + int64(t.Choose(simrt.KValue, 3)/2)
			}
			if t.Choose(simrt.KWorkload, 2) == 1 {
				// the largest ID is n-1 as for 0..n-1, the others are not
				shift := int64(n-1) - ids[n-1]
				for i := range ids {
					ids[i] += shift
				}
			}
			c.Probe("node_ids_not_0_to_n-1", 1)
			if ids[0] < 0 && ids[n-1] == int64(n-1) {
				c.Probe("negative_ids_with_largest_n-1", 1)
			}
			c.Instance["node_ids"] = fmt.Sprint(ids)
		}
	case 3:
		for i := range ids {
			ids[i] = int64(i)*3 + 1<<40
		}
		if n > 0 {
			c.Probe("node_ids_not_0_to_n-1", 1)
			c.Instance["node_ids"] = fmt.Sprintf("%d + 3i", int64(1)<<40)
		}
	}
	loopy := t.Choose(simrt.KWorkload, 5) == 4
	loopAt := t.Choose(simrt.KValue, 4096)
	var s string
	var encoded bool
	var deferred *Violation
	if v := c.Guard("Graph/control", func() string { return fmt.Sprintf("Encode of a graph of order %d (%v)", n, c.Instance) }, func() *Violation {
		g := g6Build(n, adj, cd.directed, ids)
		if !cd.directed && n > 0 && loopy {
			// graph6 describes simple graphs: a loop has no bit in it and
			// must not turn into one
			g = g6Looped{g, map[int64]bool{ids[loopAt%n]: true, ids[(loopAt/7)%n]: true}}
			c.Probe("undirected_graph_with_self_loops", 1)
		}
		s = cd.encode(g)
		encoded = true
		c.Case("control", true, hashString(s))
		c.Oracle("encode-matches-format")
		if want := g6RefEncode(n, adj, cd.directed); s != want {
			return viol(cd.scen+"/Graph/encode", "Encode of a graph of order %d gives %s, the format description gives %s", n, g6Show(s), g6Show(want))
		}
		c.Oracle("encoded-is-valid")
		if !cd.valid(s) {
			return viol(cd.scen+"/Graph/encode-invalid", "IsValid(Encode(g)) = false for a graph of order %d: %s", n, g6Show(s))
		}
		var v *Violation
		v, deferred = g6CheckValid(c, cd, "control", "", s, n, func(u, v int) bool { return adj[u][v] }, g6AllRows(n), false, true)
		return v
	}); v != nil {
		return v
	}
	if !encoded {
		return deferred
	}
	if len(s) <= 48 {
		c.Instance["encoding"] = s
	} else {
		c.Instance["encoding_bytes"] = len(s)
	}
	if n >= 63 {
		c.Probe("header_4_byte_form", 1)
	}
	hs := hashString(s)
	// structured header corruption: the 4-byte ("~" + 18 bits) and 8-byte
	// ("~~" + 36 bits) order forms never come out of Encode for the orders
	// generated here, so they are written by hand - complete, cut at every
	// length, with small and with huge orders, with a few data bytes - and
	// judged like any damaged string
	{
		prefix := ""
		if cd.directed {
			prefix = "&"
		}
		pick := func(k int) string {
			b := make([]byte, k)
			for i := range b {
				b[i] = []byte{63, 63, 63, 64, 65, 126, 100}[t.Choose(simrt.KValue, 7)]
			}
			return string(b)
		}
		hdr := prefix + "~" + pick(3)
		if t.Choose(simrt.KWorkload, 2) == 1 {
			hdr = prefix + "~~" + pick(6)
		}
		switch t.Choose(simrt.KWorkload, 6) {
		case 4:
			// orders whose square is a multiple of 2^64: 2^32, 2^33, 3*2^32
			hdr = prefix + "~~" + []string{"C?????", "G?????", "K?????"}[t.Choose(simrt.KValue, 3)]
		case 5:
			hdr = prefix + "~~" + []string{"~~~~~~", "_?????", "B?????"}[t.Choose(simrt.KValue, 3)]
		}
		hdr += pick(t.Choose(simrt.KWorkload, 4))
		c.Probe("hand_written_long_header", 1)
		for k := 0; k <= len(hdr); k++ {
			d, kk := hdr[:k], k
			what := fmt.Sprintf("hand-written long-form header %q cut to %d bytes: ", hdr, kk)
			if v := c.Guard("Graph/header-form", func() string { return what + g6Show(d) }, func() *Violation {
				c.Case("eof@k", true, hashString(hdr), uint64(kk), 77)
				return g6CheckDamaged(c, cd, what, d, n, false, kk, 0)
			}); v != nil {
				return v
			}
		}
	}
	// the same data behind a longer order form than Encode uses (the decoder
	// reads all three forms for any order), complete and cut at every length
	if len(s) > 0 && !(len(s) >= 2 && s[:2] == "~~") {
		prefix := ""
		if cd.directed {
			prefix = "&"
		}
		body := s[len(prefix)+1:]
		if n >= 63 {
			body = s[len(prefix)+4:]
		}
		sixes := func(k int) string {
			b := make([]byte, k)
			for i := range b {
				b[i] = byte(63 + (uint64(n)>>(6*uint(k-1-i)))&63)
			}
			return string(b)
		}
		forms := []string{prefix + "~~" + sixes(6) + body}
		if n < 63 {
			forms = append(forms, prefix+"~"+sixes(3)+body)
		}
		full := forms[t.Choose(simrt.KWorkload, len(forms))]
		c.Probe("longer_header_form_with_data", 1)
		for k := 0; k <= len(full); k++ {
			d, kk := full[:k], k
			what := fmt.Sprintf("encoding rewritten with a %d-byte order form (%d bytes) cut to %d: ", len(full)-len(body)-len(prefix), len(full), kk)
			if v := c.Guard("Graph/header-form", func() string { return what + g6Show(d) }, func() *Violation {
				c.Case("eof@k", true, hashString(full), uint64(kk), 78)
				return g6CheckDamaged(c, cd, what, d, n, false, kk, 0)
			}); v != nil {
				return v
			}
		}
	}
	// every truncation
	for k := 0; k < len(s); k++ {
		d, kk := s[:k], k
		what := fmt.Sprintf("encoding of %d bytes truncated to %d: ", len(s), kk)
		if v := c.Guard("Graph/truncated", func() string { return what + g6Show(d) }, func() *Violation {
			c.Case("eof@k", true, hs, uint64(kk))
			return g6CheckDamaged(c, cd, what, d, n, true, kk, 0)
		}); v != nil {
			return v
		}
	}
	// byte substitution
	sb := []byte(s)
	one := func(pos, b int) *Violation {
		d := string(simio.Set(sb, pos, byte(b)))
		what := fmt.Sprintf("byte %d of %d changed %#02x -> %#02x: ", pos, len(s), s[pos], b)
		return c.Guard("Graph/substituted", func() string { return what + g6Show(d) }, func() *Violation {
			c.Case("set(byte)", byte(b) != s[pos], hs, uint64(pos), uint64(b))
			return g6CheckDamaged(c, cd, what, d, n, false, pos, b)
		})
	}
	if len(s) <= 40 {
		for pos := 0; pos < len(s); pos++ {
			for b := 0; b < 256; b++ {
				if v := one(pos, b); v != nil {
					return v
				}
			}
		}
		c.Probe("substitution_exhaustive", 1)
		c.agg.Exhaustive[cd.scen+"/byte_values_per_position"] = 256
	} else {
		hdr := 6
		for i := 0; i < 64; i++ {
			pos := 0
			if t.Choose(simrt.KFault, 4) == 3 {
				pos = t.Choose(simrt.KFault, hdr)
			} else {
				pos = t.Choose(simrt.KFault, len(s))
			}
			if v := one(pos, t.Choose(simrt.KFault, 256)); v != nil {
				return v
			}
		}
		c.Probe("substitution_sampled", 1)
	}
	return deferred
}
