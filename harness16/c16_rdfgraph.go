package main

import (
	"fmt"
	"sort"
	"strings"

	"gonum.org/v1/gonum/graph"
	"gonum.org/v1/gonum/graph/formats/rdf"
	"gonum.org/v1/gonum/graph/multi"
	"verif/simrt"
)

// rdf-graph: the statement store of package rdf (graph.go, query.go) against
// a set of triples: statements go in through AddStatement and must come out of
// AllStatements, TermFor, Nodes, Predicates and the Query combinators
// unchanged; RemoveStatement and RemoveTerm remove exactly what their
// documentation says ("RemoveTerm removes t and any statements referencing t").

func init() {
	register(&Scenario{Name: "rdf-graph", Run: runRDFGraph})
}

var rgSubjects = []string{"<ex:a>", "<ex:b>", "<ex:c>", "_:x", "_:y"}
var rgPreds = []string{"<ex:p>", "<ex:q>", "<ex:r>"} // never also used as a node: see DESIGN, "observed but outside"
var rgObjects = []string{"<ex:a>", "<ex:b>", "<ex:c>", "_:x", "_:y", `"v"`, `"w"@en`, `"1"^^<ex:int>`}

type rgTriple [3]string

func rgKey(s *rdf.Statement) rgTriple {
	return rgTriple{s.Subject.Value, s.Predicate.Value, s.Object.Value}
}

func rgSorted(m map[rgTriple]bool) []string {
	var out []string
	for k := range m {
		out = append(out, strings.Join(k[:], " "))
	}
	sort.Strings(out)
	return out
}

func rgTermSet(ts []rdf.Term) []string {
	seen := map[string]bool{}
	for _, t := range ts {
		seen[t.Value] = true
	}
	var out []string
	for k := range seen {
		out = append(out, k)
	}
	sort.Strings(out)
	return out
}

func rgSetOf(m map[string]bool) []string {
	var out []string
	for k := range m {
		out = append(out, k)
	}
	sort.Strings(out)
	return out
}

func runRDFGraph(c *Ctx) *Violation {
	t := c.T
	c.Declare("remove_term_with_two_predecessors", "remove_statement", "remove_term", "predicate_also_a_node", "add_after_remove")
	n := 1 + t.Choose(simrt.KWorkload, 10)
	model := map[rgTriple]bool{}
	var order []rgTriple
	for i := 0; i < n; i++ {
		k := rgTriple{rgSubjects[t.Choose(simrt.KValue, len(rgSubjects))], rgPreds[t.Choose(simrt.KValue, len(rgPreds))], rgObjects[t.Choose(simrt.KValue, len(rgObjects))]}
		if model[k] {
			continue // a graph is a set of triples: each is added once
		}
		order = append(order, k)
		model[k] = true
	}
	var doc []string
	for _, k := range order {
		doc = append(doc, strings.Join(k[:], " ")+" .")
	}
	c.Instance["statements"] = strings.Join(doc, "\n")
	desc := func() string { return strings.Join(doc, "\n") }

	g := rdf.NewGraph()
	held := map[rgTriple]*rdf.Statement{}
	check := func(stage string) *Violation {
		got := map[rgTriple]bool{}
		it := g.AllStatements()
		cnt := 0
		for it.Next() {
			got[rgKey(it.Statement())] = true
			cnt++
			if cnt > 1000 {
				return viol("rdf-graph/iterator-runaway", "%s: AllStatements does not end", stage)
			}
		}
		if a, b := rgSorted(model), rgSorted(got); strings.Join(a, "\n") != strings.Join(b, "\n") {
			return viol("rdf-graph/statements/"+stage, "%s: the graph holds\n%s\nthe statements added and not removed are\n%s", stage, strings.Join(b, "\n"), strings.Join(a, "\n"))
		}
		// terms
		nodes, preds := map[string]bool{}, map[string]bool{}
		for k := range model {
			nodes[k[0]], nodes[k[2]], preds[k[1]] = true, true, true
		}
		var gotNodes []rdf.Term
		ns := g.Nodes()
		for ns.Next() {
			gotNodes = append(gotNodes, ns.Node().(rdf.Term))
		}
		if a, b := rgSetOf(nodes), rgTermSet(gotNodes); strings.Join(a, " ") != strings.Join(b, " ") {
			return viol("rdf-graph/nodes/"+stage, "%s: Nodes() = %v, subjects and objects of the statements held: %v", stage, b, a)
		}
		if a, b := rgSetOf(preds), rgTermSet(g.Predicates()); strings.Join(a, " ") != strings.Join(b, " ") {
			return viol("rdf-graph/predicates/"+stage, "%s: Predicates() = %v, predicates of the statements held: %v", stage, b, a)
		}
		for _, text := range append(append(append([]string{"<ex:s>", "<ex:t>"}, rgSubjects...), rgPreds...), rgObjects...) {
			term, ok := g.TermFor(text)
			want := nodes[text] || preds[text]
			if ok != want || (ok && term.Value != text) {
				return viol("rdf-graph/termfor/"+stage, "%s: TermFor(%q) = (%q, %v); the term is used by the statements held: %v", stage, text, term.Value, ok, want)
			}
		}
		// the multigraph view of the store: edges, lines and statements
		// between every ordered pair of nodes
		texts := rgSetOf(nodes)
		total := 0
		for _, a := range texts {
			ta, _ := g.TermFor(a)
			wantFrom, wantTo := map[string]bool{}, map[string]bool{}
			for k := range model {
				if k[0] == a {
					wantFrom[k[2]] = true
				}
				if k[2] == a {
					wantTo[k[0]] = true
				}
			}
			collect := func(it graph.Nodes) []rdf.Term {
				var ts []rdf.Term
				for it.Next() {
					ts = append(ts, it.Node().(rdf.Term))
				}
				return ts
			}
			if x, y := rgSetOf(wantFrom), rgTermSet(collect(g.FromSubject(ta))); strings.Join(x, " ") != strings.Join(y, " ") {
				return viol("rdf-graph/from/"+stage, "%s: FromSubject(%s) = %v, objects of its statements: %v", stage, a, y, x)
			}
			if x, y := rgSetOf(wantTo), rgTermSet(collect(g.ToObject(ta))); strings.Join(x, " ") != strings.Join(y, " ") {
				return viol("rdf-graph/to/"+stage, "%s: ToObject(%s) = %v, subjects of its statements: %v", stage, a, y, x)
			}
			for _, b := range texts {
				tb, _ := g.TermFor(b)
				want := map[rgTriple]bool{}
				back := false
				for k := range model {
					if k[0] == a && k[2] == b {
						want[k] = true
					}
					if k[0] == b && k[2] == a {
						back = true
					}
				}
				if got := g.HasEdgeFromTo(ta.UID, tb.UID); got != (len(want) != 0) {
					return viol("rdf-graph/has-edge/"+stage, "%s: HasEdgeFromTo(%s, %s) = %v with %d statements from the one to the other", stage, a, b, got, len(want))
				}
				if got := g.HasEdgeBetween(ta.UID, tb.UID); got != (len(want) != 0 || back) {
					return viol("rdf-graph/has-edge/"+stage, "%s: HasEdgeBetween(%s, %s) = %v; statements %s->%s: %d, %s->%s: %v", stage, a, b, got, a, b, len(want), b, a, back)
				}
				if e := g.Edge(ta.UID, tb.UID); (e != nil) != (len(want) != 0) {
					return viol("rdf-graph/has-edge/"+stage, "%s: Edge(%s, %s) = %v with %d statements from the one to the other", stage, a, b, e, len(want))
				}
				if l := g.Lines(ta.UID, tb.UID).Len(); l != len(want) {
					return viol("rdf-graph/lines/"+stage, "%s: Lines(%s, %s).Len() = %d with %d statements from the one to the other", stage, a, b, l, len(want))
				}
				gotSt := map[rgTriple]bool{}
				sit := g.Statements(ta.UID, tb.UID)
				cnt := 0
				for sit.Next() {
					gotSt[rgKey(sit.Statement())] = true
					cnt++
					if cnt > 1000 {
						return viol("rdf-graph/iterator-runaway", "%s: Statements(%s, %s) does not end", stage, a, b)
					}
				}
				if x, y := rgSorted(want), rgSorted(gotSt); strings.Join(x, "\n") != strings.Join(y, "\n") || cnt != len(want) {
					return viol("rdf-graph/statements-between/"+stage, "%s: Statements(%s, %s) yields %d statements %v, the store holds %v", stage, a, b, cnt, y, x)
				}
				total += len(want)
			}
		}
		edgeLines := 0
		eit := g.Edges()
		for eit.Next() {
			ls := eit.Edge().(multi.Edge)
			for ls.Next() {
				edgeLines++
			}
		}
		if edgeLines != len(model) || total != len(model) {
			return viol("rdf-graph/edges/"+stage, "%s: Edges() holds %d lines, the store %d statements", stage, edgeLines, len(model))
		}
		// queries from every subject
		for _, s := range rgSubjects {
			term, ok := g.TermFor(s)
			if !ok || !nodes[s] {
				continue
			}
			for _, p := range append([]string{""}, rgPreds...) {
				p := p
				match := func(st *rdf.Statement) bool { return p == "" || st.Predicate.Value == p }
				wantOut, wantIn := map[string]bool{}, map[string]bool{}
				for k := range model {
					if k[0] == s && (p == "" || k[1] == p) {
						wantOut[k[2]] = true
					}
					if k[2] == s && (p == "" || k[1] == p) {
						wantIn[k[0]] = true
					}
				}
				if a, b := rgSetOf(wantOut), rgTermSet(g.Query(term).Out(match).Unique().Result()); strings.Join(a, " ") != strings.Join(b, " ") {
					return viol("rdf-graph/query-out/"+stage, "%s: Query(%s).Out(predicate %q) = %v, want %v", stage, s, p, b, a)
				}
				if a, b := rgSetOf(wantIn), rgTermSet(g.Query(term).In(match).Unique().Result()); strings.Join(a, " ") != strings.Join(b, " ") {
					return viol("rdf-graph/query-in/"+stage, "%s: Query(%s).In(predicate %q) = %v, want %v", stage, s, p, b, a)
				}
			}
		}
		return nil
	}

	if v := c.Guard("Graph/add", desc, func() *Violation {
		for _, k := range order {
			st := rdfStmt(k[0], k[1], k[2], "")
			if prev, ok := held[k]; ok {
				_ = prev // the same triple again: the store keeps one line per (s, p, o)
			}
			g.AddStatement(st)
			held[k] = st
		}
		c.Case("control", false, hashString(strings.Join(doc, "\n")))
		c.Oracle("store-roundtrip")
		for k := range model {
			if nodesContain(model, k[1]) {
				c.Probe("predicate_also_a_node", 1)
				break
			}
		}
		return check("after-add")
	}); v != nil {
		return v
	}

	// set algebra of queries
	if v := c.Guard("Query/algebra", desc, func() *Violation {
		all := func(*rdf.Statement) bool { return true }
		var ta, tb []rdf.Term
		for i, s := range rgSubjects {
			if term, ok := g.TermFor(s); ok {
				if i%2 == 0 {
					ta = append(ta, term)
				} else {
					tb = append(tb, term)
				}
			}
		}
		qa, qb := g.Query(ta...).Out(all).Unique(), g.Query(tb...).Out(all).Unique()
		sa, sb := map[string]bool{}, map[string]bool{}
		for _, x := range qa.Result() {
			sa[x.Value] = true
		}
		for _, x := range qb.Result() {
			sb[x.Value] = true
		}
		and, or, not := map[string]bool{}, map[string]bool{}, map[string]bool{}
		for k := range sa {
			or[k] = true
			if sb[k] {
				and[k] = true
			} else {
				not[k] = true
			}
		}
		for k := range sb {
			or[k] = true
		}
		c.Oracle("query-algebra")
		// Has{All,Any}{Out,In} by predicate, and Repeat as reachability
		var every []rdf.Term
		for _, s := range append(append([]string(nil), rgSubjects...), rgObjects[5:]...) {
			if term, ok := g.TermFor(s); ok {
				every = append(every, term)
			}
		}
		for _, p := range rgPreds {
			p := p
			is := func(st *rdf.Statement) bool { return st.Predicate.Value == p }
			wAllOut, wAllIn, wAnyOut, wAnyIn := map[string]bool{}, map[string]bool{}, map[string]bool{}, map[string]bool{}
			for _, term := range every {
				x := term.Value
				allOut, allIn, anyOut, anyIn := true, true, false, false
				for k := range model {
					if k[0] == x {
						allOut = allOut && k[1] == p
						anyOut = anyOut || k[1] == p
					}
					if k[2] == x {
						allIn = allIn && k[1] == p
						anyIn = anyIn || k[1] == p
					}
				}
				wAllOut[x], wAllIn[x], wAnyOut[x], wAnyIn[x] = allOut, allIn, anyOut, anyIn
			}
			pick := func(m map[string]bool) []string {
				var out []string
				for k, v := range m {
					if v {
						out = append(out, k)
					}
				}
				sort.Strings(out)
				return out
			}
			q := g.Query(every...)
			for _, x := range []struct {
				name string
				want map[string]bool
				got  rdf.Query
			}{{"HasAllOut", wAllOut, q.HasAllOut(is)}, {"HasAllIn", wAllIn, q.HasAllIn(is)}, {"HasAnyOut", wAnyOut, q.HasAnyOut(is)}, {"HasAnyIn", wAnyIn, q.HasAnyIn(is)}} {
				if a, b := pick(x.want), rgTermSet(x.got.Result()); strings.Join(a, " ") != strings.Join(b, " ") || x.got.Len() != len(a) {
					return viol("rdf-graph/query-has", "%s(predicate %s) over all terms = %v (Len %d), want %v", x.name, p, b, x.got.Len(), a)
				}
			}
		}
		if len(ta) > 0 {
			// everything reachable from the first subject
			reach := map[string]bool{}
			front := []string{ta[0].Value}
			for len(front) > 0 {
				x := front[0]
				front = front[1:]
				for k := range model {
					if k[0] == x && !reach[k[2]] {
						reach[k[2]] = true
						front = append(front, k[2])
					}
				}
			}
			seen := map[string]bool{}
			rounds := 0
			g.Query(ta[0]).Repeat(func(q rdf.Query) (rdf.Query, bool) {
				rounds++
				r := q.Out(func(*rdf.Statement) bool { return true }).Unique()
				var fresh []rdf.Term
				for _, x := range r.Result() {
					if !seen[x.Value] {
						seen[x.Value] = true
						fresh = append(fresh, x)
					}
				}
				return g.Query(fresh...), rounds < 100
			})
			if a, b := rgSetOf(reach), rgSetOf(seen); strings.Join(a, " ") != strings.Join(b, " ") {
				return viol("rdf-graph/query-repeat", "Repeat(Out) from %s visits %v, reachable by the statements held: %v", ta[0].Value, b, a)
			}
		}
		for _, x := range []struct {
			name string
			want map[string]bool
			got  []rdf.Term
		}{{"And", and, qa.And(qb).Result()}, {"Or", or, qa.Or(qb).Result()}, {"Not", not, qa.Not(qb).Result()}} {
			if a, b := rgSetOf(x.want), rgTermSet(x.got); strings.Join(a, " ") != strings.Join(b, " ") || len(x.got) != len(x.want) {
				return viol("rdf-graph/query-"+strings.ToLower(x.name), "%s of %v and %v = %v (%d terms), want %v", x.name, rgSetOf(sa), rgSetOf(sb), b, len(x.got), a)
			}
		}
		return nil
	}); v != nil {
		return v
	}

	// removals
	nrm := t.Choose(simrt.KWorkload, 4)
	for i := 0; i < nrm; i++ {
		var stage string
		var apply func()
		if t.Choose(simrt.KWorkload, 2) == 0 && len(model) > 0 {
			keys := rgSorted(model)
			pick := keys[t.Choose(simrt.KValue, len(keys))]
			var k rgTriple
			for kk := range model {
				if strings.Join(kk[:], " ") == pick {
					k = kk
				}
			}
			stage = fmt.Sprintf("after-RemoveStatement(%s)", pick)
			apply = func() {
				g.RemoveStatement(held[k])
				delete(model, k)
				c.Probe("remove_statement", 1)
			}
		} else {
			pool := append(append([]string(nil), rgSubjects...), rgObjects...)
			pool = append(pool, rgPreds...)
			text := pool[t.Choose(simrt.KValue, len(pool))]
			stage = fmt.Sprintf("after-RemoveTerm(%s)", text)
			apply = func() {
				term, ok := g.TermFor(text)
				preds := map[string]bool{}
				for k := range model {
					if k[2] == text {
						preds[k[0]] = true
					}
				}
				if len(preds) >= 2 {
					c.Probe("remove_term_with_two_predecessors", 1)
				}
				if ok {
					g.RemoveTerm(term)
				}
				for k := range model {
					if k[0] == text || k[1] == text || k[2] == text {
						delete(model, k)
					}
				}
				c.Probe("remove_term", 1)
			}
		}
		st := stage
		if v := c.Guard("Graph/remove", func() string { return desc() + "\n" + st }, func() *Violation {
			apply()
			c.Case("control", false, hashString(strings.Join(doc, "\n")), hashString(st))
			c.Oracle("store-after-removal")
			// classify by operation, not by operand
			return check(strings.SplitN(st, "(", 2)[0])
		}); v != nil {
			return v
		}
	}
	// statements added after removals get UIDs that were released: the store
	// must not hand out a UID that is still in use
	if nrm > 0 {
		nadd := 1 + t.Choose(simrt.KWorkload, 3)
		var added []string
		for i := 0; i < nadd; i++ {
			k := rgTriple{rgSubjects[t.Choose(simrt.KValue, len(rgSubjects))], []string{"<ex:p>", "<ex:q>", "<ex:r>", "<ex:s>", "<ex:t>"}[t.Choose(simrt.KValue, 5)], rgObjects[t.Choose(simrt.KValue, len(rgObjects))]}
			if model[k] {
				continue
			}
			added = append(added, strings.Join(k[:], " "))
			kk := k
			if v := c.Guard("Graph/add-after-remove", func() string { return desc() + "\nthen removals, then added: " + strings.Join(added, " ; ") }, func() *Violation {
				st := rdfStmt(kk[0], kk[1], kk[2], "")
				g.AddStatement(st)
				held[kk] = st
				model[kk] = true
				c.Case("control", false, hashString(strings.Join(doc, "\n")), hashString(strings.Join(added, ";")))
				c.Oracle("store-add-after-remove")
				c.Probe("add_after_remove", 1)
				return check("after-add-after-remove")
			}); v != nil {
				return v
			}
		}
	}
	return nil
}

func nodesContain(model map[rgTriple]bool, text string) bool {
	for k := range model {
		if k[0] == text || k[2] == text {
			return true
		}
	}
	return false
}
