package main

import (
	"errors"
	"fmt"
	"sort"
	"strings"

	dotfmt "gonum.org/v1/gonum/graph/formats/dot"
	"verif/simio"

	"gonum.org/v1/gonum/graph"
	"gonum.org/v1/gonum/graph/encoding"
	"gonum.org/v1/gonum/graph/encoding/dot"
	"gonum.org/v1/gonum/graph/multi"
	"gonum.org/v1/gonum/graph/simple"
	"verif/simrt"
)

// Scenario "dot-text": DOT documents written directly by the harness (not via
// Marshal), decoded into a multigraph and compared with the DOT language's own
// meaning of edge statements: in "V1 -> V2 -> V3" every Vi is a node or a
// subgraph, and an edge is created from every node of Vi to every node of
// Vi+1. Subgraph endpoints only use nodes that first appear inside that
// subgraph (the decoder's treatment of already declared nodes in a subgraph
// endpoint is known finding 18 and kept out of this scenario).

type dtNode struct {
	graph.Node
	id string
}

func (n *dtNode) SetDOTID(id string) { n.id = id }
func (n *dtNode) DOTID() string      { return n.id }

type dtLine struct {
	graph.Line
	attrs          map[string]string
	fp, fc, tp, tc string
}

func (l *dtLine) SetFromPort(port, compass string) error { l.fp, l.fc = port, compass; return nil }
func (l *dtLine) SetToPort(port, compass string) error   { l.tp, l.tc = port, compass; return nil }

func (l *dtLine) SetAttribute(a encoding.Attribute) error {
	if l.attrs == nil {
		l.attrs = map[string]string{}
	}
	l.attrs[a.Key] = a.Value
	return nil
}

type dtGraph struct{ *multi.DirectedGraph }

func (g dtGraph) NewNode() graph.Node { return &dtNode{Node: g.DirectedGraph.NewNode()} }
func (g dtGraph) NewLine(from, to graph.Node) graph.Line {
	return &dtLine{Line: g.DirectedGraph.NewLine(from, to)}
}

// dtEdge / dtSimple: a simple directed destination for dot.Unmarshal whose
// edges store ports.
type dtEdge struct {
	graph.Edge
	fp, fc, tp, tc string
}

func (e *dtEdge) SetFromPort(port, compass string) error { e.fp, e.fc = port, compass; return nil }
func (e *dtEdge) SetToPort(port, compass string) error   { e.tp, e.tc = port, compass; return nil }

type dtSimple struct{ *simple.DirectedGraph }

func (g dtSimple) NewNode() graph.Node { return &dtNode{Node: g.DirectedGraph.NewNode()} }
func (g dtSimple) NewEdge(from, to graph.Node) graph.Edge {
	return &dtEdge{Edge: g.DirectedGraph.NewEdge(from, to)}
}

func init() {
	register(&Scenario{Name: "dot-text", Run: runDotText})
}

func runDotText(c *Ctx) *Violation {
	t := c.T
	c.Declare("subgraph_to_subgraph_edge", "chained_edge_statement", "nested_subgraph_endpoint", "declared_node_in_subgraph_endpoint", "attribute_statement", "parse_stream_error_injected", "parse_stream_chunked", "port_on_chain_vertex", "simple_destination_checked", "self_loop_into_simple_destination", "declared_node_named_again_in_quotes")
	next := 0
	fresh := func() string {
		next++
		return fmt.Sprintf("n%d", next)
	}
	var declared []string
	type vertex struct {
		text  string
		nodes []string
		port  string // "port:compass" of a node vertex in an edge statement ("" = none)
	}
	// withPort decorates a node vertex of an edge statement with a port
	withPort := func(v vertex) vertex {
		switch t.Choose(simrt.KWorkload, 6) {
		case 3:
			v.port = fmt.Sprintf("p%d:", t.Choose(simrt.KValue, 3))
		case 4:
			v.port = ":" + []string{"n", "se", "w", "c", "_"}[t.Choose(simrt.KValue, 5)]
		case 5:
			v.port = fmt.Sprintf("p%d:%s", t.Choose(simrt.KValue, 3), []string{"n", "se", "w", "c"}[t.Choose(simrt.KValue, 4)])
		}
		if v.port != "" {
			v.text += ":" + strings.Trim(v.port, ":")
			c.Probe("port_on_chain_vertex", 1)
		}
		return v
	}
	var mkVertex func(depth int) vertex
	mkVertex = func(depth int) vertex {
		switch k := t.Choose(simrt.KWorkload, 4); {
		case k == 0 && len(declared) > 0:
			id := declared[t.Choose(simrt.KWorkload, len(declared))]
			// an ID and the same ID in double quotes are one ID in DOT
			txt := id
			if t.Choose(simrt.KWorkload, 3) == 2 {
				txt = `"` + id + `"`
				c.Probe("declared_node_named_again_in_quotes", 1)
			}
			if depth == 0 {
				return withPort(vertex{txt, []string{id}, ""})
			}
			return vertex{txt, []string{id}, ""}
		case k <= 1:
			id := fresh()
			declared = append(declared, id)
			if depth == 0 {
				return withPort(vertex{id, []string{id}, ""})
			}
			return vertex{id, []string{id}, ""}
		default:
			n := 1 + t.Choose(simrt.KWorkload, 3)
			var ids []string
			var parts []string
			for i := 0; i < n; i++ {
				if len(declared) > 0 && t.Choose(simrt.KWorkload, 4) == 3 {
					// an already declared node is a member of the subgraph too
					id := declared[t.Choose(simrt.KWorkload, len(declared))]
					dup := false
					for _, x := range ids {
						if x == id {
							dup = true
						}
					}
					if !dup {
						ids = append(ids, id)
						parts = append(parts, id)
						c.Probe("declared_node_in_subgraph_endpoint", 1)
						continue
					}
				}
				if depth == 0 && t.Choose(simrt.KWorkload, 6) == 5 {
					in := mkVertex(1)
					if strings.HasPrefix(in.text, "{") || strings.HasPrefix(in.text, "subgraph") {
						c.Probe("nested_subgraph_endpoint", 1)
					}
					parts = append(parts, in.text)
					ids = append(ids, in.nodes...)
					continue
				}
				id := fresh()
				ids = append(ids, id)
				parts = append(parts, id)
			}
			// a subgraph end point is a set of nodes
			seen := map[string]bool{}
			var uniq []string
			for _, id := range ids {
				if !seen[id] {
					seen[id] = true
					uniq = append(uniq, id)
				}
			}
			ids = uniq
			text := "{" + strings.Join(parts, "; ") + "}"
			if t.Choose(simrt.KWorkload, 3) == 2 {
				text = fmt.Sprintf("subgraph s%d %s", next, text)
			}
			// the nodes are declared from now on
			defer func() { declared = append(declared, ids...) }()
			return vertex{text, ids, ""}
		}
	}
	want := map[string]int{}
	var stmts []string
	nst := 1 + t.Choose(simrt.KWorkload, 4)
	for s := 0; s < nst; s++ {
		chain := 2 + t.Choose(simrt.KWorkload, 2)
		var vs []vertex
		for i := 0; i < chain; i++ {
			vs = append(vs, mkVertex(0))
		}
		if chain > 2 {
			c.Probe("chained_edge_statement", 1)
		}
		var texts []string
		for i, v := range vs {
			texts = append(texts, v.text)
			if i > 0 {
				if len(vs[i-1].nodes) > 1 && len(v.nodes) > 1 {
					c.Probe("subgraph_to_subgraph_edge", 1)
				}
				for _, a := range vs[i-1].nodes {
					for _, b := range v.nodes {
						want[a+"->"+b+" from["+vs[i-1].port+"] to["+v.port+"]"]++
					}
				}
			}
		}
		stmts = append(stmts, "\t"+strings.Join(texts, " -> ")+";")
	}
	// default attribute statements and a graph attribute: they must not
	// change the topology, whatever the destination can store
	if t.Choose(simrt.KWorkload, 2) == 1 {
		extra := []string{"\tnode [shape=box];", "\tedge [color=red, weight=\"2\"];", "\tgraph [rankdir=LR];", "\tlabel=\"t\";", "\tnode [];"}
		at := t.Choose(simrt.KWorkload, len(stmts)+1)
		ins := extra[t.Choose(simrt.KWorkload, len(extra))]
		stmts = append(stmts[:at:at], append([]string{ins}, stmts[at:]...)...)
		c.Probe("attribute_statement", 1)
	}
	doc := "digraph {\n" + strings.Join(stmts, "\n") + "\n}"
	c.Instance["document"] = doc
	if v := dotTextAST(c, doc, next, want); v != nil {
		return v
	}
	if v := dotTextFaultyDestination(c); v != nil {
		return v
	}
	return c.Guard("UnmarshalMulti/edge-statements", func() string { return doc }, func() *Violation {
		dst := dtGraph{multi.NewDirectedGraph()}
		err := dot.UnmarshalMulti([]byte(doc), dst)
		c.Case("control", true, hashBytes([]byte(doc)))
		c.Oracle("edge-statement-semantics")
		if err != nil {
			return viol("dot-text/UnmarshalMulti/rejected", "a valid DOT document is rejected: %v\n%s", err, doc)
		}
		got := map[string]int{}
		nodes := dst.Nodes()
		ids := map[int64]string{}
		for nodes.Next() {
			ids[nodes.Node().ID()] = nodes.Node().(*dtNode).id
		}
		edges := dst.Edges()
		for edges.Next() {
			ls := edges.Edge().(multi.Edge)
			for ls.Next() {
				l := ls.Line()
				port := func(p, cp string) string {
					if p == "" && cp == "" {
						return ""
					}
					return p + ":" + cp
				}
				dl := l.(*dtLine)
				got[ids[l.From().ID()]+"->"+ids[l.To().ID()]+" from["+port(dl.fp, dl.fc)+"] to["+port(dl.tp, dl.tc)+"]"]++
			}
		}
		var keys []string
		for k := range want {
			keys = append(keys, k)
		}
		for k := range got {
			if _, ok := want[k]; !ok {
				keys = append(keys, k)
			}
		}
		sort.Strings(keys)
		for _, k := range keys {
			if want[k] != got[k] {
				return viol("dot-text/UnmarshalMulti/edge-statement-semantics", "edge %s: the document's edge statements create it %d time(s) (every node of a vertex to every node of the next), the decoded multigraph has it %d time(s)\n%s", k, want[k], got[k], doc)
			}
		}
		if len(ids) != next {
			return viol("dot-text/UnmarshalMulti/node-count", "the document names %d nodes, the decoded graph has %d\n%s", next, len(ids), doc)
		}
		// the same document into a simple directed graph (dot.Unmarshal has
		// its own edge-statement code): decided when no ordered pair occurs
		// twice and there is no self loop, so that a simple graph can hold
		// exactly the document's edges
		simpleOK := true
		for k, n := range want {
			ft := strings.SplitN(strings.SplitN(k, " ", 2)[0], "->", 2)
			if n != 1 || ft[0] == ft[1] {
				simpleOK = false
			}
		}
		pairs := map[string]int{}
		for k := range want {
			pairs[strings.SplitN(k, " ", 2)[0]]++
		}
		for _, n := range pairs {
			if n != 1 {
				simpleOK = false
			}
		}
		if !simpleOK {
			// a simple graph cannot hold the document: a self loop makes the
			// destination refuse the edge, which Unmarshal reports as an error
			// (never a panic, wherever in a chain the loop stands); a repeated
			// pair replaces the edge
			selfLoop := false
			for k := range want {
				ft := strings.SplitN(strings.SplitN(k, " ", 2)[0], "->", 2)
				if ft[0] == ft[1] {
					selfLoop = true
				}
			}
			c.Oracle("simple-destination-refusal")
			if selfLoop {
				c.Probe("self_loop_into_simple_destination", 1)
			}
			var err error
			var panicked interface{}
			func() {
				defer func() { panicked = recover() }()
				err = dot.Unmarshal([]byte(doc), dtSimple{simple.NewDirectedGraph()})
			}()
			if panicked != nil {
				return viol("dot-text/Unmarshal/panic-for-refused-edge", "Unmarshal into a simple directed graph panics (%v) instead of returning an error\n%s", panicked, doc)
			}
			if selfLoop && err == nil {
				return viol("dot-text/Unmarshal/self-loop-accepted", "the document has a self loop, the simple destination refuses self loops, and Unmarshal reports no error\n%s", doc)
			}
			if !selfLoop && err != nil {
				return viol("dot-text/Unmarshal/rejected", "a valid DOT document is rejected by Unmarshal: %v\n%s", err, doc)
			}
		}
		if simpleOK {
			c.Probe("simple_destination_checked", 1)
			c.Oracle("edge-statement-semantics-simple")
			sd := dtSimple{simple.NewDirectedGraph()}
			if err := dot.Unmarshal([]byte(doc), sd); err != nil {
				return viol("dot-text/Unmarshal/rejected", "a valid DOT document is rejected by Unmarshal: %v\n%s", err, doc)
			}
			sids := map[int64]string{}
			ns := sd.Nodes()
			for ns.Next() {
				sids[ns.Node().ID()] = ns.Node().(*dtNode).id
			}
			sgot := map[string]int{}
			es := sd.Edges()
			for es.Next() {
				e := es.Edge().(*dtEdge)
				port := func(p, cp string) string {
					if p == "" && cp == "" {
						return ""
					}
					return p + ":" + cp
				}
				sgot[sids[e.From().ID()]+"->"+sids[e.To().ID()]+" from["+port(e.fp, e.fc)+"] to["+port(e.tp, e.tc)+"]"]++
			}
			var all []string
			for k := range want {
				all = append(all, k)
			}
			for k := range sgot {
				if _, ok := want[k]; !ok {
					all = append(all, k)
				}
			}
			sort.Strings(all)
			for _, k := range all {
				if want[k] != sgot[k] {
					return viol("dot-text/Unmarshal/edge-statement-semantics", "edge %s: the document's edge statements create it %d time(s), dot.Unmarshal into a simple directed graph %d time(s)\n%s", k, want[k], sgot[k], doc)
				}
			}
		}
		return nil
	})
}

// dotTextAST exercises the parser and the AST printer under the decoder:
//   - ParseBytes(doc).String() is a fixed point of parse-and-print;
//   - the stream API Parse(io.Reader) returns the same AST for every chunking
//     of the stream and the injected error (or a parse error) for a stream
//     that fails or ends early, never a panic or a silently shorter graph;
//   - the printed document and the original decode to the same topology, also
//     into a destination that can store neither DOT IDs nor attributes.
func dotTextAST(c *Ctx, doc string, nNodes int, want map[string]int) *Violation {
	t := c.T
	tc := tapeChooser{t}
	var printed string
	if v := c.Guard("Parse/print-fixpoint", func() string { return doc }, func() *Violation {
		f, err := dotfmt.ParseBytes([]byte(doc))
		c.Case("control", false, hashBytes([]byte(doc)), 1)
		c.Oracle("ast-print-fixpoint")
		if err != nil {
			return viol("dot-text/Parse/rejected", "a valid DOT document is rejected by ParseBytes: %v\n%s", err, doc)
		}
		printed = f.String()
		f2, err := dotfmt.ParseString(printed)
		if err != nil {
			return viol("dot-text/Parse/printed-ast-rejected", "File.String() of a parsed document does not parse: %v\nprinted:\n%s\ndocument:\n%s", err, printed, doc)
		}
		if again := f2.String(); again != printed {
			return viol("dot-text/Parse/print-not-a-fixpoint", "parse and print is not a fixed point:\nfirst:\n%s\nsecond:\n%s", printed, again)
		}
		return nil
	}); v != nil {
		return v
	}
	// stream API
	plan := simio.NoFaults()
	plan.MaxChunk = 1 + t.Choose(simrt.KFault, 9)
	plan.ZeroReads = t.Choose(simrt.KFault, 2) == 1
	plan.EOFWithData = t.Choose(simrt.KFault, 2) == 1
	mode := t.Choose(simrt.KFault, 3)
	cut := t.Choose(simrt.KFault, len(doc))
	switch mode {
	case 1:
		plan.ErrAt = cut
		plan.ErrShort = t.Choose(simrt.KFault, 2) == 1
	case 2:
		plan.ErrAt = cut
		plan.ErrTransient = true
	}
	if v := c.Guard("Parse/stream", func() string { return fmt.Sprintf("plan %+v\n%s", plan, doc) }, func() *Violation {
		rd := &simio.Reader{Data: []byte(doc), Plan: plan, Ch: tc}
		f, err := dotfmt.Parse(rd)
		c.Case([]string{"chunking", "err@k", "err@k"}[mode], mode != 0, hashBytes([]byte(doc)), uint64(mode), uint64(cut), uint64(plan.MaxChunk))
		c.Oracle("parse-stream")
		if mode == 0 {
			c.Probe("parse_stream_chunked", 1)
			if err != nil {
				return viol("dot-text/Parse/stream-rejected", "Parse rejects a valid document delivered in chunks of at most %d bytes: %v", plan.MaxChunk, err)
			}
			if f.String() != printed {
				return viol("dot-text/Parse/stream-differs", "Parse(reader) and ParseBytes disagree on the same bytes:\n%s\nvs\n%s", f.String(), printed)
			}
			return nil
		}
		c.Probe("parse_stream_error_injected", 1)
		if err == nil {
			return viol("dot-text/Parse/stream-error-swallowed", "the reader failed after %d of %d bytes (transient=%v) and Parse returned a graph and no error:\n%s", cut, len(doc), plan.ErrTransient, f.String())
		}
		if !plan.ErrTransient && !errors.Is(err, simio.ErrInjected) {
			// a parse error for the truncated text would hide the I/O error
			// only if Parse went on after the failed read
			return viol("dot-text/Parse/stream-error-replaced", "the reader failed with the injected error after %d bytes, Parse reports %v instead", cut, err)
		}
		return nil
	}); v != nil {
		return v
	}
	// the printed document means the same graph; so does a destination that
	// stores neither IDs nor attributes
	return c.Guard("UnmarshalMulti/printed-and-plain", func() string { return printed }, func() *Violation {
		count := func(text string, plain bool) (nodes, lines int, err error) {
			if plain {
				g := multi.NewDirectedGraph()
				err = dot.UnmarshalMulti([]byte(text), g)
				nodes = g.Nodes().Len()
				es := g.Edges()
				for es.Next() {
					lines += es.Edge().(multi.Edge).Len()
				}
				return nodes, lines, err
			}
			g := dtGraph{multi.NewDirectedGraph()}
			err = dot.UnmarshalMulti([]byte(text), g)
			nodes = g.Nodes().Len()
			es := g.Edges()
			for es.Next() {
				lines += es.Edge().(multi.Edge).Len()
			}
			return nodes, lines, err
		}
		wantLines := 0
		for _, n := range want {
			wantLines += n
		}
		c.Case("control", false, hashBytes([]byte(printed)), 2)
		c.Oracle("printed-document-same-topology")
		for _, v := range []struct {
			what  string
			text  string
			plain bool
		}{{"the printed AST", printed, false}, {"the document, into a destination without DOT IDs or attribute setters", doc, true}, {"the printed AST, into a plain destination", printed, true}} {
			n, l, err := count(v.text, v.plain)
			if err != nil {
				return viol("dot-text/UnmarshalMulti/variant-rejected", "%s is rejected: %v", v.what, err)
			}
			if n != nNodes || l != wantLines {
				return viol("dot-text/UnmarshalMulti/variant-topology", "%s decodes to %d nodes and %d lines, the document means %d nodes and %d lines\n%s", v.what, n, l, nNodes, wantLines, v.text)
			}
		}
		return nil
	})
}

// ---- destinations that refuse, documents that are not one graph ----

var errDotInjected = errors.New("injected setter failure")

// dfCounter fails the at-th setter call made on any element of one destination.
type dfCounter struct{ at, n int }

func (f *dfCounter) call() error {
	f.n++
	if f.n == f.at {
		return errDotInjected
	}
	return nil
}

type dfNode struct {
	graph.Node
	f *dfCounter
}

func (n *dfNode) SetDOTID(string)                       {}
func (n *dfNode) SetAttribute(encoding.Attribute) error { return n.f.call() }

type dfLine struct {
	graph.Line
	f *dfCounter
}

func (l *dfLine) SetAttribute(encoding.Attribute) error { return l.f.call() }
func (l *dfLine) SetFromPort(string, string) error      { return l.f.call() }
func (l *dfLine) SetToPort(string, string) error        { return l.f.call() }

type dfEdge struct {
	graph.Edge
	f *dfCounter
}

func (e *dfEdge) SetAttribute(encoding.Attribute) error { return e.f.call() }
func (e *dfEdge) SetFromPort(string, string) error      { return e.f.call() }
func (e *dfEdge) SetToPort(string, string) error        { return e.f.call() }

type dfMulti struct {
	*multi.DirectedGraph
	f *dfCounter
}

func (g dfMulti) NewNode() graph.Node { return &dfNode{g.DirectedGraph.NewNode(), g.f} }
func (g dfMulti) NewLine(from, to graph.Node) graph.Line {
	return &dfLine{g.DirectedGraph.NewLine(from, to), g.f}
}

type dfSimple struct {
	*simple.DirectedGraph
	f *dfCounter
}

func (g dfSimple) NewNode() graph.Node { return &dfNode{g.DirectedGraph.NewNode(), g.f} }
func (g dfSimple) NewEdge(from, to graph.Node) graph.Edge {
	return &dfEdge{g.DirectedGraph.NewEdge(from, to), g.f}
}

// dotTextFaultyDestination: the destination's attribute and port setters are
// the decoder's "disk": the k-th call fails. Unmarshal / UnmarshalMulti must
// return an error (never panic, never succeed), and succeed when no call
// fails. Documents that are not exactly one
// graph, or that put a directed edge into an undirected graph, are errors.
func dotTextFaultyDestination(c *Ctx) *Violation {
	t := c.T
	c.Declare("setter_failure_injected", "setter_failure_beyond_last_call", "not_one_graph_document", "directed_edge_in_undirected_graph")
	nn := 1 + t.Choose(simrt.KWorkload, 3)
	var stmts []string
	calls := 0
	for i := 0; i < nn; i++ {
		if t.Choose(simrt.KWorkload, 2) == 1 {
			k := 1 + t.Choose(simrt.KWorkload, 2)
			var as []string
			for j := 0; j < k; j++ {
				as = append(as, fmt.Sprintf("k%d=v%d", j, i))
			}
			stmts = append(stmts, fmt.Sprintf("\tm%d [%s];", i, strings.Join(as, ", ")))
			calls += k
		} else {
			stmts = append(stmts, fmt.Sprintf("\tm%d;", i))
		}
	}
	ne := 1 + t.Choose(simrt.KWorkload, 3)
	pairs := map[[2]int]bool{}
	for i := 0; i < ne; i++ {
		a, b := t.Choose(simrt.KValue, nn), t.Choose(simrt.KValue, nn)
		if a == b || pairs[[2]int{a, b}] {
			continue
		}
		pairs[[2]int{a, b}] = true
		from, to := fmt.Sprintf("m%d", a), fmt.Sprintf("m%d", b)
		if t.Choose(simrt.KWorkload, 3) == 2 {
			from += ":p1"
			calls++
		}
		if t.Choose(simrt.KWorkload, 3) == 2 {
			to += ":p2:n"
			calls++
		}
		attrs := ""
		if t.Choose(simrt.KWorkload, 2) == 1 {
			attrs = " [w=1, c=red]"
			calls += 2
		}
		stmts = append(stmts, fmt.Sprintf("\t%s -> %s%s;", from, to, attrs))
	}
	doc := "digraph {\n" + strings.Join(stmts, "\n") + "\n}"
	at := 1 + t.Choose(simrt.KFault, calls+2)
	for _, multiDst := range []bool{false, true} {
		multiDst := multiDst
		name := "Unmarshal"
		if multiDst {
			name = "UnmarshalMulti"
		}
		if v := c.Guard(name+"/faulty-destination", func() string { return fmt.Sprintf("setter call %d of %d fails\n%s", at, calls, doc) }, func() *Violation {
			f := &dfCounter{at: at}
			var err error
			if multiDst {
				err = dot.UnmarshalMulti([]byte(doc), dfMulti{multi.NewDirectedGraph(), f})
			} else {
				err = dot.Unmarshal([]byte(doc), dfSimple{simple.NewDirectedGraph(), f})
			}
			c.Case("err@k", at <= calls, hashString(doc), uint64(at), uint64(g6b2i(multiDst)))
			c.Oracle("setter-error-reported")
			if f.n > calls || (at > calls && f.n != calls) {
				return viol("dot-text/"+name+"/setter-calls", "the document asks for %d attribute / port setter calls, %s made %d\n%s", calls, name, f.n, doc)
			}
			if at <= calls {
				c.Probe("setter_failure_injected", 1)
				if err == nil {
					return viol("dot-text/"+name+"/setter-error-lost", "setter call %d of %d returned an error, %s returned nil\n%s", at, calls, name, doc)
				}
				// (attribute setter errors come back with the setter's message,
				// port setter errors without it: either is "an error")
				return nil
			}
			c.Probe("setter_failure_beyond_last_call", 1)
			if err != nil {
				return viol("dot-text/"+name+"/rejected", "a valid DOT document is rejected by %s: %v\n%s", name, err, doc)
			}
			return nil
		}); v != nil {
			return v
		}
	}
	// not exactly one graph; a directed edge in an undirected graph
	bad := []string{"", doc + "\n" + doc, "graph {\n\tm0 -> m1;\n}", "graph {\n\tm0 -- {m1 -> m2};\n}"}
	bi := t.Choose(simrt.KWorkload, len(bad))
	bdoc := bad[bi]
	return c.Guard("Unmarshal/not-a-graph", func() string { return bdoc }, func() *Violation {
		e1 := dot.Unmarshal([]byte(bdoc), dtSimple{simple.NewDirectedGraph()})
		e2 := dot.UnmarshalMulti([]byte(bdoc), dtGraph{multi.NewDirectedGraph()})
		c.Case("control", false, hashString(bdoc))
		c.Oracle("malformed-document-rejected")
		if bi < 2 {
			c.Probe("not_one_graph_document", 1)
		} else {
			c.Probe("directed_edge_in_undirected_graph", 1)
		}
		if e1 == nil || e2 == nil {
			return viol("dot-text/Unmarshal/malformed-accepted", "Unmarshal = %v, UnmarshalMulti = %v for a document that %s\n%s", e1, e2, []string{"holds no graph", "holds two graphs", "has a directed edge in an undirected graph", "has a directed edge in an undirected graph"}[bi], bdoc)
		}
		return nil
	})
}
