// Package simio provides simulated streams and stored bytes: readers and
// writers that transfer data in seeded chunks, end early, fail at a chosen
// byte, and byte strings with flipped bits. No goroutines, no real I/O: the
// simulator owns the device.
package simio

import (
	"errors"
	"io"
)

// ErrInjected is the sentinel error returned by injected I/O failures.
var ErrInjected = errors.New("simio: injected I/O error")

// Chooser supplies the nondeterministic choices (a *simrt.Tape, or nil for
// the trivial device that transfers everything at once).
type Chooser interface {
	Choose(n int) int
}

// Plan describes the faults of one stream.
type Plan struct {
	MaxChunk    int  // each transfer moves 1..MaxChunk bytes (0 = as much as asked)
	ZeroReads   bool // reads may return (0, nil), at most 3 in a row
	EOFWithData bool // the last read may return (n>0, io.EOF)
	EOFAt       int  // the stream ends after this many bytes (-1 = at the end of the data)
	ErrAt       int  // the transfer reaching this byte count fails with ErrInjected (-1 = never)
	ErrShort    bool // the failing transfer still moves the bytes before ErrAt
	// ErrTransient: the injected read error is returned exactly once (a
	// timeout, an interrupted call); later reads report a clean end of stream
	// although bytes were lost. A consumer that drops the one error it was
	// given sees a stream that looks complete.
	ErrTransient bool
}

// NoFaults is the plan of a perfect device.
func NoFaults() Plan { return Plan{EOFAt: -1, ErrAt: -1} }

// Reader is a simulated input stream over fixed bytes.
type Reader struct {
	Data      []byte
	Plan      Plan
	Ch        Chooser
	Delivered int // bytes handed to the caller so far
	Calls     int
	AfterEnd  int // Read calls made after an error or EOF was returned
	ZeroReads int // (0, nil) results returned
	DataEOFs  int // (n>0, io.EOF) results returned
	zeros     int
	ended     bool
}

func (r *Reader) choose(n int) int {
	if r.Ch == nil || n <= 1 {
		return 0
	}
	return r.Ch.Choose(n)
}

func (r *Reader) Read(p []byte) (int, error) {
	r.Calls++
	if r.ended {
		r.AfterEnd++
		if r.Plan.ErrAt >= 0 && r.Delivered >= r.Plan.ErrAt && !r.Plan.ErrTransient {
			return 0, ErrInjected
		}
		return 0, io.EOF
	}
	if len(p) == 0 {
		return 0, nil
	}
	limit := len(r.Data)
	if r.Plan.EOFAt >= 0 && r.Plan.EOFAt < limit {
		limit = r.Plan.EOFAt
	}
	errAt := r.Plan.ErrAt
	if errAt > limit {
		errAt = -1 // the stream ends first
	}
	if errAt >= 0 && r.Delivered >= errAt {
		r.ended = true
		return 0, ErrInjected
	}
	if r.Delivered >= limit {
		r.ended = true
		return 0, io.EOF
	}
	if r.Plan.ZeroReads && r.zeros < 3 && r.choose(6) == 5 {
		r.zeros++
		r.ZeroReads++
		return 0, nil
	}
	r.zeros = 0
	n := len(p)
	if r.Plan.MaxChunk > 0 {
		if k := 1 + r.choose(r.Plan.MaxChunk); k < n {
			n = k
		}
	}
	bound := limit
	if errAt >= 0 {
		bound = errAt
	}
	if r.Delivered+n > bound {
		n = bound - r.Delivered
	}
	copy(p, r.Data[r.Delivered:r.Delivered+n])
	r.Delivered += n
	if errAt >= 0 && r.Delivered == errAt && r.Plan.ErrShort {
		r.ended = true
		return n, ErrInjected
	}
	if r.Delivered == limit && errAt < 0 && r.Plan.EOFWithData && r.choose(2) == 1 {
		r.ended = true
		r.DataEOFs++
		return n, io.EOF
	}
	return n, nil
}

// Writer is a simulated output stream.
type Writer struct {
	Buf      []byte
	Plan     Plan
	Ch       Chooser
	Accepted int
	Calls    int
	AfterEnd int // Write calls made after an error was returned
	ended    bool
}

func (w *Writer) choose(n int) int {
	if w.Ch == nil || n <= 1 {
		return 0
	}
	return w.Ch.Choose(n)
}

func (w *Writer) Write(p []byte) (int, error) {
	w.Calls++
	if w.ended {
		w.AfterEnd++
		return 0, ErrInjected
	}
	if w.Plan.ErrAt >= 0 && w.Accepted+len(p) > w.Plan.ErrAt {
		n := 0
		if w.Plan.ErrShort {
			n = w.Plan.ErrAt - w.Accepted
			w.Buf = append(w.Buf, p[:n]...)
			w.Accepted += n
		}
		w.ended = true
		return n, ErrInjected
	}
	w.Buf = append(w.Buf, p...)
	w.Accepted += len(p)
	return len(p), nil
}

// Flip returns a copy of data with bit (0..7) of byte off inverted.
func Flip(data []byte, off int, bit uint) []byte {
	out := append([]byte(nil), data...)
	out[off] ^= 1 << bit
	return out
}

// Set returns a copy of data with byte off replaced by b.
func Set(data []byte, off int, b byte) []byte {
	out := append([]byte(nil), data...)
	out[off] = b
	return out
}
