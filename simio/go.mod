module verif/simio

go 1.23
