// Command conformance runs one program of the table repeatedly and prints
// its distinct results, panics and the number of race reports as JSON.
package main

import (
	"encoding/json"
	"flag"
	"fmt"
	"os"
	"sort"

	"verif/conformance/progs"
)

func safe(f func() string) (res, pan string) {
	defer func() {
		if r := recover(); r != nil {
			pan = fmt.Sprint(r)
		}
	}()
	return f(), ""
}

func main() {
	idx := flag.Int("prog", -1, "program index (-1: print the table size)")
	reps := flag.Int("reps", 100, "repetitions")
	flag.Parse()
	if *idx < 0 {
		fmt.Println(len(progs.Table))
		return
	}
	p := progs.Table[*idx]
	results := map[string]int{}
	panics := map[string]int{}
	for i := 0; i < *reps; i++ {
		r, pn := runProg(p, i)
		results[r]++
		if pn != "" {
			panics[pn]++
		}
	}
	var rs []string
	for r := range results {
		rs = append(rs, r)
	}
	sort.Strings(rs)
	json.NewEncoder(os.Stdout).Encode(map[string]interface{}{"name": p.Name, "racy": p.Racy, "results": rs, "panics": panics, "races": raceErrors()})
}
