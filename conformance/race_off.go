//go:build !race

package main

func raceErrors() int { return -1 }
