//go:build !simconf

package main

import (
	"verif/conformance/progs"
)

func runProg(p progs.Prog, rep int) (string, string) {
	return safe(p.Run)
}
