module verif/conformance

go 1.23
