// Package progs is the simrt conformance table: micro-programs written with
// the real Go concurrency primitives. They are run (a) natively under the
// race detector and (b) rewritten by simrewrite and run on simrt built with
// -race; results, panics and the set of programs with a race report must
// agree. Half of them are racy on purpose.
package progs

import (
	"fmt"
	"sync"
	"sync/atomic"
)

// Prog is one micro-program. Racy says whether a data race is expected.
type Prog struct {
	Name string
	Racy bool
	Run  func() string
}

type box struct{ v int }

var Table = []Prog{
	{"unbuffered-handoff", false, func() string {
		c := make(chan *box)
		done := make(chan int)
		go func() {
			b := <-c
			b.v++
			done <- b.v
		}()
		b := &box{1}
		c <- b
		return fmt.Sprint(<-done)
	}},
	{"unbuffered-handoff-reverse", false, func() string {
		// the receive happens before the send completes
		c := make(chan int)
		x := 0
		go func() {
			x = 7
			<-c
		}()
		c <- 1
		return fmt.Sprint(x)
	}},
	{"write-after-send", true, func() string {
		c := make(chan *box, 1)
		done := make(chan int)
		go func() {
			b := <-c
			done <- b.v
		}()
		b := &box{1}
		c <- b
		b.v = 2 // races with the receiver's read
		return fmt.Sprint(<-done > 0)
	}},
	{"buffered-slot-order", false, func() string {
		// the k-th receive happens before the (k+C)-th send completes
		c := make(chan int, 1)
		x := 0
		done := make(chan bool)
		go func() {
			x = 1
			<-c
			done <- true
		}()
		c <- 0
		c <- 0 // completes only after the receive: x = 1 is visible
		r := x
		<-done
		<-c
		return fmt.Sprint(r)
	}},
	{"buffered-no-order", true, func() string {
		// a buffered send does not wait for the receiver
		c := make(chan int, 2)
		x := 0
		done := make(chan bool)
		go func() {
			x = 1
			<-c
			done <- true
		}()
		c <- 0
		r := x // unsynchronised with x = 1
		<-done
		return fmt.Sprint(r >= 0)
	}},
	{"close-publishes", false, func() string {
		c := make(chan struct{})
		x := 0
		go func() {
			x = 5
			close(c)
		}()
		<-c
		return fmt.Sprint(x)
	}},
	{"range-until-close", false, func() string {
		c := make(chan int)
		sum := 0
		go func() {
			for i := 1; i <= 4; i++ {
				c <- i
			}
			close(c)
		}()
		for v := range c {
			sum += v
		}
		return fmt.Sprint(sum)
	}},
	{"mutex-counter", false, func() string {
		var mu sync.Mutex
		var wg sync.WaitGroup
		n := 0
		for i := 0; i < 4; i++ {
			wg.Add(1)
			go func() {
				defer wg.Done()
				mu.Lock()
				n++
				mu.Unlock()
			}()
		}
		wg.Wait()
		return fmt.Sprint(n)
	}},
	{"missing-mutex", true, func() string {
		var wg sync.WaitGroup
		n := 0
		for i := 0; i < 4; i++ {
			wg.Add(1)
			go func() {
				defer wg.Done()
				n++
			}()
		}
		wg.Wait()
		return fmt.Sprint(n > 0)
	}},
	{"two-mutexes", true, func() string {
		// each goroutine locks its own mutex: no mutual exclusion
		var a, b sync.Mutex
		var wg sync.WaitGroup
		n := 0
		wg.Add(2)
		go func() { defer wg.Done(); a.Lock(); n++; a.Unlock() }()
		go func() { defer wg.Done(); b.Lock(); n++; b.Unlock() }()
		wg.Wait()
		return fmt.Sprint(n > 0)
	}},
	{"waitgroup-join", false, func() string {
		var wg sync.WaitGroup
		res := make([]int, 4)
		for i := range res {
			wg.Add(1)
			go func(i int) { defer wg.Done(); res[i] = i * i }(i)
		}
		wg.Wait()
		return fmt.Sprint(res)
	}},
	{"read-before-wait", true, func() string {
		var wg sync.WaitGroup
		x := 0
		wg.Add(1)
		go func() { defer wg.Done(); x = 3 }()
		r := x // before Wait
		wg.Wait()
		return fmt.Sprint(r >= 0)
	}},
	{"once-publishes", false, func() string {
		var once sync.Once
		var wg sync.WaitGroup
		v := 0
		out := make([]int, 3)
		for i := range out {
			wg.Add(1)
			go func(i int) {
				defer wg.Done()
				once.Do(func() { v = 42 })
				out[i] = v
			}(i)
		}
		wg.Wait()
		return fmt.Sprint(out)
	}},
	{"once-not-used-by-reader", true, func() string {
		var once sync.Once
		var wg sync.WaitGroup
		v := 0
		wg.Add(2)
		go func() { defer wg.Done(); once.Do(func() { v = 42 }) }()
		r := 0
		go func() { defer wg.Done(); r = v }() // does not go through the Once
		wg.Wait()
		return fmt.Sprint(r >= 0)
	}},
	{"rwmutex-readers-writer", false, func() string {
		var rw sync.RWMutex
		var wg sync.WaitGroup
		v := 1
		sums := make([]int, 3)
		for i := range sums {
			wg.Add(1)
			go func(i int) {
				defer wg.Done()
				rw.RLock()
				sums[i] = v
				rw.RUnlock()
			}(i)
		}
		wg.Add(1)
		go func() {
			defer wg.Done()
			rw.Lock()
			v++
			rw.Unlock()
		}()
		wg.Wait()
		return fmt.Sprint(v)
	}},
	{"rwmutex-write-under-rlock", true, func() string {
		var rw sync.RWMutex
		var wg sync.WaitGroup
		v := 0
		for i := 0; i < 3; i++ {
			wg.Add(1)
			go func() {
				defer wg.Done()
				rw.RLock()
				v++ // readers do not exclude each other
				rw.RUnlock()
			}()
		}
		wg.Wait()
		return fmt.Sprint(v > 0)
	}},
	{"select-send-recv", false, func() string {
		a := make(chan *box)
		b := make(chan *box)
		done := make(chan int)
		go func() {
			for i := 0; i < 2; i++ {
				select {
				case x := <-a:
					x.v += 10
				case x := <-b:
					x.v += 20
				}
			}
			done <- 1
		}()
		x, y := &box{1}, &box{2}
		a <- x
		b <- y
		<-done
		return fmt.Sprint(x.v + y.v)
	}},
	{"select-default-poll", true, func() string {
		// polling with default establishes nothing
		c := make(chan int, 1)
		x := 0
		done := make(chan bool)
		go func() {
			x = 1
			done <- true
		}()
		select {
		case <-c:
		default:
		}
		r := x
		<-done
		return fmt.Sprint(r >= 0)
	}},
	{"semaphore-cap-1", false, func() string {
		sem := make(chan struct{}, 1)
		var wg sync.WaitGroup
		n := 0
		for i := 0; i < 4; i++ {
			wg.Add(1)
			go func() {
				defer wg.Done()
				sem <- struct{}{}
				n++
				<-sem
			}()
		}
		wg.Wait()
		return fmt.Sprint(n)
	}},
	{"semaphore-cap-2", true, func() string {
		sem := make(chan struct{}, 2) // admits two at once
		var wg sync.WaitGroup
		n := 0
		for i := 0; i < 4; i++ {
			wg.Add(1)
			go func() {
				defer wg.Done()
				sem <- struct{}{}
				n++
				<-sem
			}()
		}
		wg.Wait()
		return fmt.Sprint(n > 0)
	}},
	{"pipeline-ownership", false, func() string {
		in := make(chan []int)
		out := make(chan []int)
		go func() {
			for s := range in {
				for i := range s {
					s[i] *= 2
				}
				out <- s
			}
			close(out)
		}()
		tot := 0
		go func() {
			for k := 0; k < 3; k++ {
				in <- []int{k, k + 1}
			}
			close(in)
		}()
		for s := range out {
			tot += s[0] + s[1]
		}
		return fmt.Sprint(tot)
	}},
	{"worker-partial-sums", false, func() string {
		// the shape of quad.Fixed
		tasks := make(chan int)
		go func() {
			for i := 1; i <= 6; i++ {
				tasks <- i
			}
			close(tasks)
		}()
		var mu sync.Mutex
		var wg sync.WaitGroup
		total := 0
		wg.Add(3)
		for w := 0; w < 3; w++ {
			go func() {
				defer wg.Done()
				sub := 0
				for k := range tasks {
					sub += k
				}
				mu.Lock()
				total += sub
				mu.Unlock()
			}()
		}
		wg.Wait()
		return fmt.Sprint(total)
	}},
	{"worker-partial-sums-no-mutex", true, func() string {
		tasks := make(chan int)
		go func() {
			for i := 1; i <= 6; i++ {
				tasks <- i
			}
			close(tasks)
		}()
		var wg sync.WaitGroup
		total := 0
		wg.Add(3)
		for w := 0; w < 3; w++ {
			go func() {
				defer wg.Done()
				sub := 0
				for k := range tasks {
					sub += k
				}
				total += sub
			}()
		}
		wg.Wait()
		return fmt.Sprint(total > 0)
	}},
	{"block-owned-output", false, func() string {
		// the shape of dgemmParallel: disjoint blocks of one slice
		c := make([]int, 8)
		limit := make(chan struct{}, 2)
		var wg sync.WaitGroup
		for b := 0; b < 4; b++ {
			wg.Add(1)
			limit <- struct{}{}
			go func(b int) {
				defer func() { wg.Done(); <-limit }()
				c[2*b], c[2*b+1] = b, b
			}(b)
		}
		wg.Wait()
		return fmt.Sprint(c)
	}},
	{"block-overlap", true, func() string {
		c := make([]int, 8)
		var wg sync.WaitGroup
		for b := 0; b < 3; b++ {
			wg.Add(1)
			go func(b int) {
				defer wg.Done()
				c[2*b], c[2*b+1], c[2*b+2] = b, b, b // one element too many
			}(b)
		}
		wg.Wait()
		return fmt.Sprint(len(c))
	}},
	{"quit-channel", false, func() string {
		// the shape of fd.Gradient
		work := make(chan int, 4)
		ans := make(chan int, 4)
		quit := make(chan struct{})
		for w := 0; w < 2; w++ {
			go func() {
				for {
					select {
					case <-quit:
						return
					case k := <-work:
						ans <- k * k
					}
				}
			}()
		}
		for i := 1; i <= 4; i++ {
			work <- i
		}
		s := 0
		for i := 0; i < 4; i++ {
			s += <-ans
		}
		close(quit)
		return fmt.Sprint(s)
	}},
	{"pool-handoff", false, func() string {
		p := sync.Pool{New: func() interface{} { return new(box) }}
		var wg sync.WaitGroup
		for i := 0; i < 4; i++ {
			wg.Add(1)
			go func() {
				defer wg.Done()
				b := p.Get().(*box)
				b.v = 1
				b.v++
				p.Put(b)
			}()
		}
		wg.Wait()
		return "ok"
	}},
	{"pool-use-after-put", true, func() string {
		p := sync.Pool{New: func() interface{} { return new(box) }}
		var wg sync.WaitGroup
		shared := new(box)
		p.Put(shared)
		for i := 0; i < 4; i++ {
			wg.Add(1)
			go func() {
				defer wg.Done()
				b := p.Get().(*box)
				b.v++
				p.Put(b)
				shared.v++ // not ours any more (or never was)
			}()
		}
		wg.Wait()
		return "ok"
	}},
	{"chan-of-chan-reply", false, func() string {
		req := make(chan chan int)
		go func() {
			for r := range req {
				r <- 9
			}
		}()
		r := make(chan int)
		req <- r
		v := <-r
		close(req)
		return fmt.Sprint(v)
	}},
	{"stats-loop-token", false, func() string {
		// the shape of optimize.minimize: a token circulates through buffered channels
		ops := make(chan *box, 1)
		res := make(chan *box, 1)
		go func() {
			for b := range ops {
				b.v++
				res <- b
			}
			close(res)
		}()
		b := &box{}
		for i := 0; i < 3; i++ {
			ops <- b
			b = <-res
			b.v *= 2
		}
		close(ops)
		for range res {
		}
		return fmt.Sprint(b.v)
	}},
	{"stats-loop-keeps-pointer", true, func() string {
		ops := make(chan *box, 1)
		res := make(chan *box, 1)
		go func() {
			for b := range ops {
				b.v++
				res <- b
			}
			close(res)
		}()
		b := &box{}
		ops <- b
		b.v = 5 // still owned by the worker
		<-res
		close(ops)
		for range res {
		}
		return "ok"
	}},
	{"atomic-publish", false, func() string {
		// a plain write published by an atomic store and read only after
		// an atomic load that saw it: ordered, no race
		var flag int32
		data := 0
		done := make(chan int)
		go func() {
			if atomic.LoadInt32(&flag) == 1 {
				done <- data
			} else {
				done <- -1
			}
		}()
		data = 42
		atomic.StoreInt32(&flag, 1)
		r := <-done
		return fmt.Sprint(r == 42 || r == -1)
	}},
	{"atomic-counter-typed", false, func() string {
		var n atomic.Int64
		var wg sync.WaitGroup
		for i := 0; i < 4; i++ {
			wg.Add(1)
			go func() {
				defer wg.Done()
				for j := 0; j < 5; j++ {
					n.Add(1)
				}
			}()
		}
		wg.Wait()
		return fmt.Sprint(n.Load())
	}},
	{"atomic-flag-does-not-cover-later-write", true, func() string {
		// the write after the atomic store is not ordered with the
		// reader's read, whatever the load observes
		var flag int32
		data := 0
		done := make(chan bool)
		go func() {
			atomic.LoadInt32(&flag)
			done <- data >= 0
		}()
		atomic.StoreInt32(&flag, 1)
		data = 1
		return fmt.Sprint(<-done)
	}},
}
