//go:build simconf

package main

import (
	"fmt"

	"verif/conformance/progs"
	"verif/simrt"
)

func runProg(p progs.Prog, rep int) (string, string) {
	var res, pan string
	tape := simrt.NewTape(uint64(rep)*7919 + 1)
	cfg := simrt.Config{Policy: simrt.Policy(rep % 4), GOMAXPROCS: 4, PCTDepth: 2, PCTSteps: 40, PoolMode: simrt.PoolTape, MaxSteps: 100000}
	out := simrt.Run(tape, cfg, func() { res, pan = safe(p.Run) })
	switch out.Verdict {
	case simrt.VOK:
	case simrt.VPanic:
		pan = fmt.Sprint(out.PanicVal)
	default:
		pan = "verdict:" + out.Verdict.String() + ": " + out.Msg
	}
	return res, pan
}
