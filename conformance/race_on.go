//go:build race

package main

import "runtime"

func raceErrors() int { return runtime.RaceErrors() }
