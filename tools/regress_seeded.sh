#!/bin/bash
# regress_seeded.sh [id...]: for every seeded change kept under seeded/<id>/ (all of them by
# default), apply its patch.diff to a scratch worktree of /repo's HEAD (never to /repo) and
# run the quick check of its property against that tree: a VIOLATION line is expected.
# Patches that no longer apply (a later fix: commit rewrote the lines) are reported as SKIP.
set -u
cd /verif
ids=("$@")
if [ ${#ids[@]} -eq 0 ]; then ids=($(ls seeded)); fi
rc=0
for id in "${ids[@]}"; do
  [ -f seeded/$id/patch.diff ] || continue
  prop=$(python3 -c "import json;print(json.load(open('/verif/seeded/$id/meta.json')).get('property','')[:3])" 2>/dev/null)
  case "$id" in c09*) prop=C09;; c19*) prop=C19;; c16*) prop=C16;; esac
  wt=/tmp/wt-seedreg-$id
  git -C /repo worktree add -q --detach $wt HEAD || { echo "cannot create worktree"; exit 2; }
  patch=seeded/$id/patch.diff
  [ -f seeded/$id/patch-ported-to-d6ea6ba.diff ] && patch=seeded/$id/patch-ported-to-d6ea6ba.diff
  if ! git -C $wt apply --3way /verif/$patch >/dev/null 2>&1 && ! git -C $wt apply /verif/$patch >/dev/null 2>&1; then
    echo "SKIP $id ($prop): patch does not apply to the current tree"; git -C /repo worktree remove --force $wt; continue
  fi
  if ! (cd $wt && GOFLAGS=-mod=mod GOPROXY=off GOSUMDB=off GOTOOLCHAIN=local go build ./... >/dev/null 2>&1); then
    echo "SKIP $id ($prop): does not build on the current tree"; git -C /repo worktree remove --force $wt; continue
  fi
  out=$(VERIF_REPO=$wt ./check $prop quick 2>&1)
  n=$(echo "$out" | grep -c '^VIOLATION')
  sigs=$(echo "$out" | grep '^violation:' | cut -d: -f2 | sort -u | head -4 | tr '\n' ' ')
  if [ "$n" -gt 0 ]; then echo "ok   $id ($prop) -> $n VIOLATION line(s):$sigs";
  elif [ "$id" = "c09e" ]; then echo "note $id ($prop) -> no violation: harmless since 6316b15 (the origin goroutine it left unsynchronised is no longer started when OriginKnown is set; its demonstration passes on the current tree with the patch)";
  elif [ "$id" = "c19r" ]; then echo "note $id ($prop) -> no violation: harmless since 8a7acce / 998da5d (its demonstration passes on the current tree with the patch)";
  else echo "MISS $id ($prop) -> no violation"; rc=1; fi
  git -C /repo worktree remove --force $wt
done
rm -f /verif/replays/*.json
exit $rc
