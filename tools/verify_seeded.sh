#!/bin/bash
# verify_seeded.sh <name> <property> <demo pkg dir> <demo -run regexp> <test pkgs...>
# Confirms a seeded change in /tmp/wt-<name>: builds, existing tests pass with it,
# demonstration fails with it and passes without it; then runs the quick check
# against that tree (VERIF_REPO) and reports. Nothing is changed in /repo.
set -u
name=$1; prop=$2; demopkg=$3; demorun=$4; shift 4
wt=/tmp/wt-$name; out=/tmp/seeded-out/$name
export GOFLAGS=-mod=mod GOPROXY=off GOSUMDB=off GOTOOLCHAIN=local
cd $wt || exit 2
echo "== build"; go build ./... 2>&1 | tail -3
echo "== existing tests with the change (demo excluded)"
go test -vet=off -count=1 -skip "$demorun" "$@" 2>&1 | tail -15
echo "== demo WITH change (expect FAIL)"
go test -vet=off -count=1 -run "$demorun" ./$demopkg/ 2>&1 | tail -6
echo "== demo WITHOUT change (expect ok)"
git apply -R $out/patch.diff && go test -vet=off -count=1 -run "$demorun" ./$demopkg/ 2>&1 | tail -3; git apply $out/patch.diff
echo "== check $prop quick against the changed tree"
cd /verif && VERIF_REPO=$wt ./check $prop quick 2>&1 | grep -v "^KNOWN-FINDING" | cut -c1-700 | tail -25
