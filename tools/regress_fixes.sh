#!/bin/bash
# regress_fixes.sh: for every "fix:" commit recorded in known_findings.json,
# revert that one commit in a scratch worktree (never in /repo) and run the
# quick check of its property against it: the violation must come back.
set -u
cd /verif
python3 - <<'PY' > /tmp/fixlist.txt
import json
seen=set()
for f in json.load(open('/verif/known_findings.json'))['findings']:
    if f.get('status')=='fixed' and f['commit'] not in seen:
        seen.add(f['commit']); print(f['commit'], f['property'])
PY
rc=0
while read commit prop; do
  wt=/tmp/wt-revert-$commit
  git -C /repo worktree add -q --detach $wt HEAD || { echo "cannot create worktree"; exit 2; }
  if ! git -C $wt revert --no-commit $commit >/dev/null 2>&1; then echo "SKIP $commit: does not revert cleanly"; git -C /repo worktree remove --force $wt; continue; fi
  out=$(VERIF_REPO=$wt ./check $prop quick 2>&1)
  n=$(echo "$out" | grep -c '^VIOLATION')
  sigs=$(echo "$out" | grep '^violation:' | cut -d: -f2 | sort -u | tr '\n' ' ')
  if [ "$n" -gt 0 ]; then echo "ok   $commit ($prop) reverted -> $n VIOLATION line(s):$sigs";
  elif [ "$commit" = "3041357" ]; then echo "note $commit ($prop) reverted -> no violation: subsumed by efd89c9 (with the NaN-step guard a NaN beta ends in a failed line search at the converged point, which is a legitimate outcome; either repair alone ends the run)";
  else echo "MISS $commit ($prop) reverted -> no violation"; rc=1; fi
  git -C /repo worktree remove --force $wt
done < /tmp/fixlist.txt
rm -f /verif/replays/*.json
exit $rc
