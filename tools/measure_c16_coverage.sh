#!/bin/bash
# measure_c16_coverage.sh: development aid, not part of any check. Builds harness16 with statement
# coverage of the codec packages anchored by C16 against a plain scratch copy of /repo, runs the
# quick workload and lists the never-executed blocks (tools/pool_coverage.py with ALLFUNCS=1).
set -eu
export GOFLAGS=-mod=mod GOPROXY=off GOSUMDB=off GOTOOLCHAIN=local
S=/var/tmp/verif-C16-cov-$$
rm -rf $S /var/tmp/verif-covdata16; mkdir -p $S/cov /var/tmp/verif-covdata16
rsync -a --exclude .git /repo/ $S/gonum/
sed '/^replace/,$d' /verif/harness16/go.mod > $S/h.mod
printf 'replace verif/simrt => /verif/simrt\n\nreplace verif/simio => /verif/simio\n\nreplace gonum.org/v1/gonum => %s/gonum\n' $S >> $S/h.mod
cp /verif/harness16/go.sum $S/h.sum
G=gonum.org/v1/gonum
PK=verif/harness16,$G/graph/encoding/graph6,$G/graph/encoding/digraph6,$G/graph/encoding/dot,$G/graph/encoding,$G/graph/formats/dot,$G/graph/formats/dot/ast,$G/graph/formats/dot/internal/astx,$G/graph/formats/rdf,$G/mat,$G/mathext/prng,$G/stat/card,$G/graph/formats/cytoscapejs,$G/graph/formats/sigmajs,$G/graph/formats/gexf12
(cd /verif/harness16 && go build -modfile=$S/h.mod -cover -coverpkg=$PK -o $S/h16 .)
echo '{"findings":[]}' > $S/known.json
cp /verif/known_findings.json $S/known.json
n=12
per=$(( ${RUNS:-3200} / n ))
for i in $(seq 0 $((n-1))); do
  GOCOVERDIR=/var/tmp/verif-covdata16 $S/h16 -seed 1 -from $i -stride $n -to $((i + per*n)) -out $S/o-$i.json -replays $S/rp -known $S/known.json > $S/l-$i.log 2>&1 &
done
wait
go tool covdata textfmt -i=/var/tmp/verif-covdata16 -o /var/tmp/verif-cov16.txt
for pkg in "$@"; do
  echo "######## $pkg"
  ALLFUNCS=1 python3 /verif/tools/pool_coverage.py /var/tmp/verif-cov16.txt $S/gonum $G/$pkg
done
rm -rf $S /var/tmp/verif-covdata16
