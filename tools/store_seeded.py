#!/usr/bin/env python3
"""store_seeded.py <name> <property> <detected_by> <note>: copy a confirmed seeded change from /tmp/seeded-out/<name> to /verif/seeded/<name>."""
import json, os, re, shutil, sys
name, prop, by, note = sys.argv[1:5]
src = '/tmp/seeded-out/' + name
dst = '/verif/seeded/' + name
os.makedirs(dst, exist_ok=True)
for f in os.listdir(src):
    if f == 'verify.log':
        continue
    p = os.path.join(src, f)
    if os.path.isdir(p):
        shutil.copytree(p, os.path.join(dst, f), dirs_exist_ok=True)
    else:
        shutil.copy(p, dst)
meta = json.load(open(os.path.join(src, 'meta.json'))) if os.path.exists(os.path.join(src, 'meta.json')) else {}
log = open(os.path.join(src, 'verify.log')).read() if os.path.exists(os.path.join(src, 'verify.log')) else ''
conf = [l for l in log.splitlines() if re.match(r'^(==|ok|FAIL|--- FAIL|VIOLATION)', l)]
meta['breaks_property'] = prop
meta['confirmed_independently'] = {
    "worktree": "/tmp/wt-%s (git worktree of /repo, removed afterwards)" % name,
    "what_was_run": "tools/verify_seeded.sh: go build ./...; existing tests of the touched packages with the change (demo excluded); demo with the change (fails); demo with the patch reverted (passes); ./check %s quick with VERIF_REPO pointing at the changed tree" % prop,
    "transcript": conf[:40]}
meta['detected_by'] = by
meta['detection_note'] = note
json.dump(meta, open(os.path.join(dst, 'meta.json'), 'w'), indent=1)
print("stored", dst, os.listdir(dst))
