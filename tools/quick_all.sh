#!/bin/bash
# quick_all.sh: run the three quick checks against /repo and print one line each (development aid)
cd /verif
for p in C09 C19 C16; do
  out=$(./check $p quick 2>&1); rc=$?
  echo "$p rc=$rc $(echo "$out" | grep -E '^\[' | tail -1 | cut -c1-160)"
  echo "$out" | grep -E '^VIOLATION|^INFRA|^violation' | cut -c1-300 | head -5
done
