// Command simrewrite rewrites the concurrency, clock and GOMAXPROCS constructs
// of a scratch copy of gonum so that they call verif/simrt (see DESIGN.md
// section 2.1). It never touches /repo. Anything it does not understand makes
// it exit 2.
package main

import (
	"bytes"
	"encoding/json"
	"flag"
	"fmt"
	"go/ast"
	"go/format"
	"go/token"
	"go/types"
	"os"
	"path/filepath"
	"sort"
	"strings"

	"golang.org/x/tools/go/ast/astutil"
	"golang.org/x/tools/go/packages"
)

const simrtPath = "verif/simrt"

type site struct {
	ID   int    `json:"id"`
	File string `json:"file"`
	Line int    `json:"line"`
	Kind string `json:"kind"`
	Func string `json:"func,omitempty"`
}

var (
	sites    []site
	fset     = token.NewFileSet()
	rootDir  string
	modPath  = "gonum.org/v1/gonum"
	problems []string
)

func fatal(format string, a ...interface{}) {
	fmt.Fprintf(os.Stderr, "simrewrite: "+format+"\n", a...)
	os.Exit(2)
}

func unsupported(pos token.Pos, what string) {
	problems = append(problems, fmt.Sprintf("%s: unsupported: %s", fset.Position(pos), what))
}

func main() {
	dir := flag.String("dir", "", "root of the scratch copy of the module")
	tags := flag.String("tags", "", "build tags")
	sitesOut := flag.String("sites", "", "write the site table here (JSON)")
	siteBase := flag.Int("sitebase", 1, "first site id")
	module := flag.String("module", modPath, "module path whose packages are rewritten")
	flag.Parse()
	modPath = *module
	if *dir == "" || flag.NArg() == 0 {
		fatal("usage: simrewrite -dir <copy> [-tags t] [-sites out.json] pkgs...")
	}
	var err error
	rootDir, err = filepath.Abs(*dir)
	if err != nil {
		fatal("%v", err)
	}
	cfg := &packages.Config{
		Mode: packages.NeedName | packages.NeedFiles | packages.NeedCompiledGoFiles | packages.NeedImports |
			packages.NeedDeps | packages.NeedTypes | packages.NeedSyntax | packages.NeedTypesInfo | packages.NeedModule,
		Dir:  rootDir,
		Fset: fset,
		Env:  append(os.Environ(), "GOFLAGS=-mod=mod", "GOPROXY=off", "GOSUMDB=off", "GOTOOLCHAIN=local"),
	}
	if *tags != "" {
		cfg.BuildFlags = []string{"-tags=" + *tags}
	}
	pkgs, err := packages.Load(cfg, flag.Args()...)
	if err != nil {
		fatal("load: %v", err)
	}
	all := map[string]*packages.Package{}
	var visit func(p *packages.Package)
	visit = func(p *packages.Package) {
		if all[p.PkgPath] != nil {
			return
		}
		all[p.PkgPath] = p
		for _, q := range p.Imports {
			visit(q)
		}
	}
	for _, p := range pkgs {
		visit(p)
	}
	var paths []string
	for path, p := range all {
		if path == modPath || strings.HasPrefix(path, modPath+"/") {
			if len(p.Errors) > 0 {
				fatal("package %s has errors: %v", path, p.Errors[0])
			}
			paths = append(paths, path)
		}
	}
	sort.Strings(paths)
	nextSite := *siteBase
	nfiles := 0
	for _, path := range paths {
		p := all[path]
		type fileAST struct {
			name string
			f    *ast.File
		}
		var files []fileAST
		for i, f := range p.Syntax {
			files = append(files, fileAST{p.CompiledGoFiles[i], f})
		}
		sort.Slice(files, func(i, j int) bool { return files[i].name < files[j].name })
		for _, fa := range files {
			if !strings.HasPrefix(fa.name, rootDir+string(filepath.Separator)) {
				continue // generated outside the copy (cgo, cache)
			}
			rw := &rewriter{info: p.TypesInfo, file: fa.f, name: fa.name, nextSite: nextSite}
			if !rw.needed() {
				continue
			}
			src, err := os.ReadFile(fa.name)
			if err != nil {
				fatal("%v", err)
			}
			out := rw.rewrite(src)
			nextSite = rw.nextSite
			if out == nil {
				continue
			}
			if err := os.WriteFile(fa.name, out, 0o644); err != nil {
				fatal("%v", err)
			}
			nfiles++
		}
	}
	if len(problems) > 0 {
		for _, p := range problems {
			fmt.Fprintln(os.Stderr, "simrewrite:", p)
		}
		os.Exit(2)
	}
	if *sitesOut != "" {
		b, _ := json.MarshalIndent(sites, "", " ")
		if err := os.WriteFile(*sitesOut, b, 0o644); err != nil {
			fatal("%v", err)
		}
	}
	fmt.Printf("simrewrite: %d packages scanned, %d files rewritten, %d sites (next id %d)\n", len(paths), nfiles, len(sites), nextSite)
}

type rewriter struct {
	info     *types.Info
	file     *ast.File
	name     string
	nextSite int
	ntmp     int
	used     bool // simrt referenced
	curFunc  string

	commStmts map[ast.Stmt]bool       // comm statements of select clauses (handled by the select rewrite)
	commRecv  map[*ast.UnaryExpr]bool // receive expressions inside comm statements
	recv2     map[*ast.UnaryExpr]bool // v, ok := <-c
	rangeChan map[*ast.RangeStmt]bool
	builtins  map[*ast.CallExpr]string // close/len/cap/make on channels
	consts    map[ast.Expr]bool        // constant or nil expressions (safe to inline)
	selSwap   map[*ast.SelectorExpr]string
	sitePos   map[ast.Node]token.Pos
	funcOf    map[ast.Node]string
}

func isChan(t types.Type) bool {
	if t == nil {
		return false
	}
	_, ok := t.Underlying().(*types.Chan)
	return ok
}

var syncNames = map[string]bool{"Mutex": true, "RWMutex": true, "WaitGroup": true, "Once": true, "Pool": true, "Map": true, "Cond": true, "NewCond": true, "Locker": true}
var atomicNames = func() map[string]bool {
	m := map[string]bool{"Int32": true, "Int64": true, "Uint32": true, "Uint64": true, "Bool": true, "Value": true, "Pointer": true}
	for _, op := range []string{"Load", "Store", "Add", "Swap", "CompareAndSwap"} {
		for _, t := range []string{"Int32", "Int64", "Uint32", "Uint64"} {
			m[op+t] = true
		}
	}
	return m
}()
var timeNames = map[string]bool{"Now": true, "Since": true, "Sleep": true, "After": true, "Until": true}
var timeBad = map[string]bool{"NewTimer": true, "NewTicker": true, "Tick": true, "AfterFunc": true, "Timer": true, "Ticker": true}
var runtimeNames = map[string]bool{"GOMAXPROCS": true, "NumCPU": true}

// needed scans the file and fills the decision tables from the type
// information of the original tree.
func (r *rewriter) needed() bool {
	r.commStmts = map[ast.Stmt]bool{}
	r.commRecv = map[*ast.UnaryExpr]bool{}
	r.recv2 = map[*ast.UnaryExpr]bool{}
	r.rangeChan = map[*ast.RangeStmt]bool{}
	r.builtins = map[*ast.CallExpr]string{}
	r.consts = map[ast.Expr]bool{}
	r.selSwap = map[*ast.SelectorExpr]string{}
	r.funcOf = map[ast.Node]string{}
	need := false
	var funcStack []string
	ast.Inspect(r.file, func(n ast.Node) bool {
		switch n := n.(type) {
		case *ast.FuncDecl:
			name := n.Name.Name
			if n.Recv != nil && len(n.Recv.List) == 1 {
				name = types.ExprString(n.Recv.List[0].Type) + "." + name
			}
			funcStack = []string{name}
		case *ast.ChanType:
			need = true
		case *ast.SendStmt, *ast.GoStmt, *ast.SelectStmt:
			need = true
			r.funcOf[n] = top(funcStack)
			if s, ok := n.(*ast.SelectStmt); ok {
				for _, cl := range s.Body.List {
					cc := cl.(*ast.CommClause)
					if cc.Comm == nil {
						continue
					}
					r.commStmts[cc.Comm] = true
					if u := commRecvExpr(cc.Comm); u != nil {
						r.commRecv[u] = true
					}
				}
			}
		case *ast.UnaryExpr:
			if n.Op == token.ARROW {
				need = true
				r.funcOf[n] = top(funcStack)
			}
		case *ast.AssignStmt:
			if len(n.Lhs) == 2 && len(n.Rhs) == 1 {
				if u, ok := unparen(n.Rhs[0]).(*ast.UnaryExpr); ok && u.Op == token.ARROW {
					r.recv2[u] = true
				}
			}
		case *ast.ValueSpec:
			if len(n.Names) == 2 && len(n.Values) == 1 {
				if u, ok := unparen(n.Values[0]).(*ast.UnaryExpr); ok && u.Op == token.ARROW {
					r.recv2[u] = true
				}
			}
		case *ast.RangeStmt:
			if isChan(r.info.TypeOf(n.X)) {
				r.rangeChan[n] = true
				need = true
				r.funcOf[n] = top(funcStack)
			}
		case *ast.CallExpr:
			if id, ok := unparen(n.Fun).(*ast.Ident); ok {
				if b, ok := r.info.Uses[id].(*types.Builtin); ok {
					switch b.Name() {
					case "close":
						r.builtins[n] = "close"
						need = true
						r.funcOf[n] = top(funcStack)
					case "len", "cap":
						if len(n.Args) == 1 && isChan(r.info.TypeOf(n.Args[0])) {
							r.builtins[n] = b.Name()
							need = true
						}
					case "make":
						if len(n.Args) >= 1 && isChan(r.info.TypeOf(n.Args[0])) {
							r.builtins[n] = "make"
							need = true
						}
					}
				}
			}
		case *ast.SelectorExpr:
			if id, ok := n.X.(*ast.Ident); ok {
				if pn, ok := r.info.Uses[id].(*types.PkgName); ok {
					switch pn.Imported().Path() {
					case "sync":
						if syncNames[n.Sel.Name] {
							r.selSwap[n] = n.Sel.Name
							need = true
						} else {
							unsupported(n.Pos(), "sync."+n.Sel.Name)
						}
					case "sync/atomic":
						// functions and types alike have a counterpart of the
						// same name in simrt (a scheduling point, then the
						// real operation)
						if atomicNames[n.Sel.Name] {
							r.selSwap[n] = n.Sel.Name
							need = true
						} else {
							unsupported(n.Pos(), "atomic."+n.Sel.Name)
						}
					case "time":
						if timeNames[n.Sel.Name] {
							r.selSwap[n] = n.Sel.Name
							need = true
						} else if timeBad[n.Sel.Name] {
							unsupported(n.Pos(), "time."+n.Sel.Name)
						}
					case "runtime":
						if runtimeNames[n.Sel.Name] {
							r.selSwap[n] = n.Sel.Name
							need = true
						}
					case "context":
						unsupported(n.Pos(), "package context")
					case "reflect":
						if n.Sel.Name == "Select" || n.Sel.Name == "MakeChan" || n.Sel.Name == "ChanOf" {
							unsupported(n.Pos(), "reflect."+n.Sel.Name)
						}
					}
				}
			}
		}
		if e, ok := n.(ast.Expr); ok {
			if tv, ok := r.info.Types[e]; ok && (tv.Value != nil || tv.IsNil()) {
				r.consts[e] = true
			}
		}
		return true
	})
	return need
}

func top(s []string) string {
	if len(s) == 0 {
		return ""
	}
	return s[len(s)-1]
}

func unparen(e ast.Expr) ast.Expr {
	for {
		p, ok := e.(*ast.ParenExpr)
		if !ok {
			return e
		}
		e = p.X
	}
}

// commRecvExpr returns the receive expression of a select comm statement, or
// nil for a send.
func commRecvExpr(s ast.Stmt) *ast.UnaryExpr {
	switch s := s.(type) {
	case *ast.ExprStmt:
		if u, ok := unparen(s.X).(*ast.UnaryExpr); ok && u.Op == token.ARROW {
			return u
		}
	case *ast.AssignStmt:
		if len(s.Rhs) == 1 {
			if u, ok := unparen(s.Rhs[0]).(*ast.UnaryExpr); ok && u.Op == token.ARROW {
				return u
			}
		}
	}
	return nil
}

func ident(name string) *ast.Ident { return ast.NewIdent(name) }

func (r *rewriter) simrt(name string) ast.Expr {
	r.used = true
	return &ast.SelectorExpr{X: ident("simrt"), Sel: ident(name)}
}

func intLit(n int) ast.Expr { return &ast.BasicLit{Kind: token.INT, Value: fmt.Sprint(n)} }

func (r *rewriter) tmp() string {
	r.ntmp++
	return fmt.Sprintf("_sr%d", r.ntmp)
}

func (r *rewriter) site(n ast.Node, pos token.Pos, kind string) ast.Expr {
	id := r.nextSite
	r.nextSite++
	p := fset.Position(pos)
	rel, err := filepath.Rel(rootDir, p.Filename)
	if err != nil {
		rel = p.Filename
	}
	sites = append(sites, site{ID: id, File: rel, Line: p.Line, Kind: kind, Func: r.funcOf[n]})
	return intLit(id)
}

// primary wraps e in parentheses unless it can be the operand of a selector.
func primary(e ast.Expr) ast.Expr {
	switch e.(type) {
	case *ast.Ident, *ast.SelectorExpr, *ast.CallExpr, *ast.IndexExpr, *ast.ParenExpr, *ast.IndexListExpr, *ast.TypeAssertExpr:
		return e
	}
	return &ast.ParenExpr{X: e}
}

func method(x ast.Expr, name string, args ...ast.Expr) *ast.CallExpr {
	return &ast.CallExpr{Fun: &ast.SelectorExpr{X: primary(x), Sel: ident(name)}, Args: args}
}

func define(name string, val ast.Expr) ast.Stmt {
	return &ast.AssignStmt{Lhs: []ast.Expr{ident(name)}, Tok: token.DEFINE, Rhs: []ast.Expr{val}}
}

func (r *rewriter) rewrite(src []byte) []byte {
	// Everything before the package clause (licence, build constraints) is
	// kept verbatim; all other comments are dropped so that the printer
	// cannot misplace one inside a rewritten construct.
	header := src[:fset.Position(r.file.Package).Offset]
	var keep []*ast.CommentGroup
	for _, cg := range r.file.Comments {
		if cg.End() < r.file.Package {
			continue
		}
		for _, c := range cg.List {
			if strings.HasPrefix(c.Text, "//go:") && !strings.HasPrefix(c.Text, "//go:build") && !strings.HasPrefix(c.Text, "//go:generate") {
				keep = append(keep, &ast.CommentGroup{List: []*ast.Comment{c}})
			}
		}
	}
	if len(keep) > 0 {
		// compiler directives attached to declarations: too delicate to move
		unsupported(keep[0].Pos(), "compiler directive in a file that needs rewriting")
		return nil
	}
	r.file.Comments = nil
	r.file.Doc = nil
	ast.Inspect(r.file, func(n ast.Node) bool {
		switch n := n.(type) {
		case *ast.FuncDecl:
			n.Doc = nil
		case *ast.GenDecl:
			n.Doc = nil
		case *ast.TypeSpec:
			n.Doc, n.Comment = nil, nil
		case *ast.ValueSpec:
			n.Doc, n.Comment = nil, nil
		case *ast.Field:
			n.Doc, n.Comment = nil, nil
		case *ast.ImportSpec:
			n.Doc, n.Comment = nil, nil
		}
		return true
	})

	astutil.Apply(r.file, nil, r.post)

	for _, path := range []string{"sync", "sync/atomic", "time", "runtime"} {
		if !astutil.UsesImport(r.file, path) {
			astutil.DeleteImport(fset, r.file, path)
		}
	}
	if r.used {
		astutil.AddImport(fset, r.file, simrtPath)
	}
	var buf bytes.Buffer
	if err := format.Node(&buf, fset, r.file); err != nil {
		fatal("print %s: %v", r.name, err)
	}
	body := buf.Bytes()
	// format.Node prints from the package clause on since Doc is nil.
	out := append(append([]byte{}, header...), body...)
	if _, err := format.Source(out); err != nil {
		fatal("rewritten %s does not parse: %v", r.name, err)
	}
	return out
}

func (r *rewriter) post(c *astutil.Cursor) bool {
	switch n := c.Node().(type) {
	case *ast.ChanType:
		c.Replace(&ast.StarExpr{X: &ast.IndexExpr{X: r.simrt("Chan"), Index: n.Value}})

	case *ast.SendStmt:
		if r.commStmts[n] {
			return true
		}
		c.Replace(&ast.ExprStmt{X: method(n.Chan, "Send", r.site(n, n.Arrow, "send"), n.Value)})

	case *ast.UnaryExpr:
		if n.Op != token.ARROW || r.commRecv[n] {
			return true
		}
		name := "Recv"
		if r.recv2[n] {
			name = "Recv2"
		}
		c.Replace(method(n.X, name, r.site(n, n.OpPos, "recv")))

	case *ast.RangeStmt:
		if r.rangeChan[n] {
			n.X = method(n.X, "All", r.site(n, n.For, "range"))
		}

	case *ast.CallExpr:
		switch r.builtins[n] {
		case "close":
			if len(n.Args) == 1 {
				c.Replace(method(n.Args[0], "Close", r.site(n, n.Lparen, "close")))
			}
		case "len":
			c.Replace(method(n.Args[0], "Len"))
		case "cap":
			c.Replace(method(n.Args[0], "Cap"))
		case "make":
			// n.Args[0] has already been rewritten to *simrt.Chan[T]
			st, ok := n.Args[0].(*ast.StarExpr)
			var elem ast.Expr
			if ok {
				if ix, ok := st.X.(*ast.IndexExpr); ok {
					elem = ix.Index
				}
			}
			if elem == nil {
				unsupported(n.Pos(), "make of a named channel type")
				return true
			}
			var size ast.Expr = intLit(0)
			if len(n.Args) > 1 {
				size = &ast.CallExpr{Fun: ident("int"), Args: []ast.Expr{n.Args[1]}}
			}
			c.Replace(&ast.CallExpr{Fun: &ast.IndexExpr{X: r.simrt("MakeChan"), Index: elem}, Args: []ast.Expr{size}})
		}

	case *ast.SelectorExpr:
		if _, ok := r.selSwap[n]; ok {
			r.used = true
			n.X = ident("simrt")
		}

	case *ast.GoStmt:
		c.Replace(r.goStmt(n))

	case *ast.SelectStmt:
		if lab, ok := c.Parent().(*ast.LabeledStmt); ok && lab.Stmt == n {
			unsupported(n.Pos(), "labelled select statement")
			return true
		}
		c.Replace(r.selectStmt(n))
	}
	return true
}

func (r *rewriter) goStmt(n *ast.GoStmt) ast.Stmt {
	siteArg := r.site(n, n.Go, "go")
	call := n.Call
	if fl, ok := call.Fun.(*ast.FuncLit); ok && len(call.Args) == 0 {
		return &ast.ExprStmt{X: &ast.CallExpr{Fun: r.simrt("Go"), Args: []ast.Expr{siteArg, fl}}}
	}
	var stmts []ast.Stmt
	fn := r.tmp()
	stmts = append(stmts, define(fn, call.Fun))
	inner := &ast.CallExpr{Fun: ident(fn), Ellipsis: call.Ellipsis}
	for _, a := range call.Args {
		if r.consts[a] {
			inner.Args = append(inner.Args, a)
			continue
		}
		t := r.tmp()
		stmts = append(stmts, define(t, a))
		inner.Args = append(inner.Args, ident(t))
	}
	if call.Ellipsis.IsValid() {
		inner.Ellipsis = token.Pos(1)
	}
	lit := &ast.FuncLit{Type: &ast.FuncType{Params: &ast.FieldList{}}, Body: &ast.BlockStmt{List: []ast.Stmt{&ast.ExprStmt{X: inner}}}}
	stmts = append(stmts, &ast.ExprStmt{X: &ast.CallExpr{Fun: r.simrt("Go"), Args: []ast.Expr{siteArg, lit}}})
	return &ast.BlockStmt{List: stmts}
}

func (r *rewriter) selectStmt(n *ast.SelectStmt) ast.Stmt {
	siteArg := r.site(n, n.Select, "select")
	var pre []ast.Stmt
	var cases []ast.Expr
	var clauses []ast.Stmt
	hasDefault := false
	idx := 0
	for _, cl := range n.Body.List {
		cc := cl.(*ast.CommClause)
		if cc.Comm == nil {
			hasDefault = true
			clauses = append(clauses, &ast.CaseClause{Body: cc.Body})
			continue
		}
		var body []ast.Stmt
		switch s := cc.Comm.(type) {
		case *ast.SendStmt:
			ch := r.tmp()
			pre = append(pre, define(ch, s.Chan))
			var val ast.Expr = s.Value
			if !r.consts[s.Value] {
				v := r.tmp()
				pre = append(pre, define(v, s.Value))
				val = ident(v)
			}
			cases = append(cases, &ast.CallExpr{Fun: r.simrt("SendCase"), Args: []ast.Expr{ident(ch), val}})
		default:
			u := commRecvExpr(cc.Comm)
			if u == nil {
				unsupported(cc.Pos(), "select communication clause")
				continue
			}
			ch := r.tmp()
			pre = append(pre, define(ch, u.X))
			var lhs []ast.Expr
			tok := token.DEFINE
			if as, ok := cc.Comm.(*ast.AssignStmt); ok {
				lhs = as.Lhs
				tok = as.Tok
			}
			var vp, okp ast.Expr = ident("nil"), ident("nil")
			var rhs []ast.Expr
			if len(lhs) >= 1 {
				v := r.tmp()
				pre = append(pre, define(v, &ast.CallExpr{Fun: r.simrt("Zero"), Args: []ast.Expr{ident(ch)}}))
				vp = &ast.UnaryExpr{Op: token.AND, X: ident(v)}
				rhs = append(rhs, ident(v))
			}
			if len(lhs) == 2 {
				o := r.tmp()
				pre = append(pre, &ast.DeclStmt{Decl: &ast.GenDecl{Tok: token.VAR, Specs: []ast.Spec{&ast.ValueSpec{Names: []*ast.Ident{ident(o)}, Type: ident("bool")}}}})
				okp = &ast.UnaryExpr{Op: token.AND, X: ident(o)}
				rhs = append(rhs, ident(o))
			}
			cases = append(cases, &ast.CallExpr{Fun: r.simrt("RecvCase"), Args: []ast.Expr{ident(ch), vp, okp}})
			if len(lhs) > 0 {
				allBlank := true
				for _, l := range lhs {
					if id, ok := l.(*ast.Ident); !ok || id.Name != "_" {
						allBlank = false
					}
				}
				if allBlank {
					tok = token.ASSIGN
				}
				body = append(body, &ast.AssignStmt{Lhs: lhs, Tok: tok, Rhs: rhs})
			}
		}
		body = append(body, cc.Body...)
		clauses = append(clauses, &ast.CaseClause{List: []ast.Expr{intLit(idx)}, Body: body})
		idx++
	}
	def := "false"
	if hasDefault {
		def = "true"
	}
	args := append([]ast.Expr{siteArg, ident(def)}, cases...)
	sw := &ast.SwitchStmt{
		Tag:  &ast.CallExpr{Fun: r.simrt("Select"), Args: args},
		Body: &ast.BlockStmt{List: clauses},
	}
	return &ast.BlockStmt{List: append(pre, sw)}
}
