#!/bin/bash
# measure_pool_coverage.sh: development aid, not part of any check. Builds the C09 harness
# with statement coverage of the simulated gonum packages against a scratch copy of /repo,
# runs the quick workload, and lists the never-executed blocks of every function that
# touches a pooled workspace (tools/pool_coverage.py). Output: stdout. Scratch is removed.
set -eu
export GOFLAGS=-mod=mod GOPROXY=off GOSUMDB=off GOTOOLCHAIN=local
cd /verif
rm -rf /var/tmp/verif-C09-cov-keep /var/tmp/verif-covdata
before=$(ls -d /var/tmp/verif-C09-* 2>/dev/null || true)
cp evidence/C09.json /var/tmp/verif-evidence-C09.keep 2>/dev/null || true
VERIF_KEEP_SCRATCH=1 VERIF_QUICK_RUNS=100 ./check C09 quick > /dev/null 2>&1 || true
cp /var/tmp/verif-evidence-C09.keep evidence/C09.json 2>/dev/null || true   # the tool's short run is not evidence
S=""
for d in /var/tmp/verif-C09-*; do case " $before " in *" $d "*) ;; *) S=$d;; esac; done
[ -n "$S" ] || { echo "no scratch dir"; exit 2; }
PK=verif/harness,gonum.org/v1/gonum/mat,gonum.org/v1/gonum/optimize,gonum.org/v1/gonum/unit,gonum.org/v1/gonum/diff/fd,gonum.org/v1/gonum/integrate/quad,gonum.org/v1/gonum/blas/gonum,gonum.org/v1/gonum/stat/distmat,gonum.org/v1/gonum/stat/card
(cd harness && go build -modfile=$S/harness.mod -cover -coverpkg=$PK -o $S/harness-cover .)
mkdir -p /var/tmp/verif-covdata
cd $S
for w in $(seq 0 11); do
  GOCOVERDIR=/var/tmp/verif-covdata ./harness-cover -prop ${1:-C09} -seed 1 -from $w -to ${RUNS:-24000} -stride 12 -out $S/cv-$w.json -hashes $S/cv-$w.hashes -sites $S/sites.json -replays $S/rp -racelog $S/rl-$w -tier quick -known $S/known.json > $S/cv-$w.log 2>&1 &
done
wait
go tool covdata textfmt -i=/var/tmp/verif-covdata -o /var/tmp/verif-cov.txt
python3 /verif/tools/pool_coverage.py /var/tmp/verif-cov.txt $S/gonum ${2:-gonum.org/v1/gonum/mat}
cp /var/tmp/verif-cov.txt /var/tmp/verif-cov-last.txt
if [ -n "${KEEP_SRC:-}" ]; then rm -rf /var/tmp/verif-cov-src; mkdir -p /var/tmp/verif-cov-src; cp -r $S/gonum/$KEEP_SRC /var/tmp/verif-cov-src/; fi   # rewritten sources the line numbers refer to
rm -rf $S /var/tmp/verif-covdata /var/tmp/verif-cov.txt
