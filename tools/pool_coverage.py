#!/usr/bin/env python3
"""pool_coverage.py <covdata textfmt file> <gonum dir> [pkg path prefix]: development aid (not part of any check).
Lists, for every function of package mat (or the given package) that touches a pooled workspace, the
statement blocks the C09 workload never executed. Used to complete the pools catalogue (DESIGN 6.x)."""
import re, sys, os, collections
cov, root = sys.argv[1], sys.argv[2]
pkg = sys.argv[3] if len(sys.argv) > 3 else 'gonum.org/v1/gonum/mat'
blocks = collections.defaultdict(dict)
for l in open(cov):
    if l.startswith('mode:'): continue
    m = re.match(r'(.+):(\d+)\.(\d+),(\d+)\.(\d+) (\d+) (\d+)$', l.strip())
    if not m: continue
    f = m.group(1)
    if os.path.dirname(f) != pkg: continue
    key = (int(m.group(2)), int(m.group(4)))
    blocks[f][key] = max(blocks[f].get(key, 0), int(m.group(7)))
poolre = re.compile(r'\b(get\w*Workspace\w*|put\w*Workspace\w*|getFloat64s|putFloat64s|getInts|putInts|getDenseWorkspace|sync\.Pool|simrt\.Pool)\b')
tot = unc = 0
for f in sorted(blocks):
    path = os.path.join(root, os.path.relpath(f, 'gonum.org/v1/gonum'))
    src = open(path).read().split('\n')
    # function boundaries
    starts = [i + 1 for i, l in enumerate(src) if l.startswith('func ')]
    starts.append(len(src) + 1)
    for a, b in zip(starts, starts[1:]):
        body = '\n'.join(src[a - 1:b - 1])
        if not os.environ.get('ALLFUNCS') and not poolre.search(body): continue
        name = src[a - 1][:90]
        miss = [(s, e) for (s, e), c in sorted(blocks[f].items()) if a <= s < b and c == 0]
        allb = [(s, e) for (s, e), c in blocks[f].items() if a <= s < b]
        tot += len(allb); unc += len(miss)
        if miss:
            print('%s:%d %s  [%d/%d blocks unexecuted]' % (os.path.basename(f), a, name, len(miss), len(allb)))
            for s, e in miss:
                print('      %d-%d: %s' % (s, e, src[s - 1].strip()[:100]))
print('pool-using functions: %d blocks, %d never executed' % (tot, unc))
