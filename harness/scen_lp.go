package main

import (
	"errors"
	"fmt"
	"math"
	"math/big"
	"time"

	"gonum.org/v1/gonum/mat"
	"gonum.org/v1/gonum/optimize/convex/lp"
	"verif/simrt"
)

// Scenario "lp" (C19, LP clause): lp.Simplex and lp.Convert on small integer
// programs against exact rational enumeration.
//
// This clause of C19 is a pure function of its input: there is no schedule,
// clock or fault in it, and the simulator contributes nothing but the seeded
// generator, the tape minimiser and the replay file. It is checked as a
// by-product because the worker is there anyway; DESIGN.md section 7 says so.
//
// Reference (math/big.Rat, exact): for a standard-form program
// min c.x, Ax = b, x >= 0 with A of full row rank,
//   - feasible  <=> some nonsingular basis B has B^-1 b >= 0;
//   - unbounded <=> feasible and some nonsingular basis B and nonbasic column j
//     have B^-1 A_j <= 0 and reduced cost c_j - c_B.B^-1 A_j < 0 (these are
//     exactly the extreme rays of the recession cone);
//   - otherwise the optimum is the least cost over the basic feasible solutions.

func init() {
	register(&Scenario{Name: "lp", Props: []string{"C19"}, Run: runLP})
}

type ratMat [][]*big.Rat

func ratOf(v float64) *big.Rat { return new(big.Rat).SetInt64(int64(v)) }

// ratSolve solves B y = rhs for each right-hand side by Gauss-Jordan
// elimination; ok is false when B is singular.
func ratSolve(B ratMat, rhs []ratMat) (sol []ratMat, ok bool) {
	m := len(B)
	k := len(rhs)
	// augmented copy
	a := make(ratMat, m)
	for i := range a {
		a[i] = make([]*big.Rat, m+k)
		for j := 0; j < m; j++ {
			a[i][j] = new(big.Rat).Set(B[i][j])
		}
		for r := 0; r < k; r++ {
			a[i][m+r] = new(big.Rat).Set(rhs[r][i][0])
		}
	}
	for col := 0; col < m; col++ {
		p := -1
		for i := col; i < m; i++ {
			if a[i][col].Sign() != 0 {
				p = i
				break
			}
		}
		if p < 0 {
			return nil, false
		}
		a[col], a[p] = a[p], a[col]
		inv := new(big.Rat).Inv(a[col][col])
		for j := col; j < m+k; j++ {
			a[col][j].Mul(a[col][j], inv)
		}
		for i := 0; i < m; i++ {
			if i == col || a[i][col].Sign() == 0 {
				continue
			}
			f := new(big.Rat).Set(a[i][col])
			for j := col; j < m+k; j++ {
				a[i][j].Sub(a[i][j], new(big.Rat).Mul(f, a[col][j]))
			}
		}
	}
	sol = make([]ratMat, k)
	for r := 0; r < k; r++ {
		sol[r] = make(ratMat, m)
		for i := 0; i < m; i++ {
			sol[r][i] = []*big.Rat{a[i][m+r]}
		}
	}
	return sol, true
}

type lpRef struct {
	fullRank   bool
	feasible   bool
	unbounded  bool
	opt        *big.Rat
	nBases     int
	degenerate bool
	// strict: the feasible bases whose basic solution is strictly positive
	strict [][]int
}

func lpReference(c []float64, A [][]float64, b []float64) lpRef {
	m, n := len(A), len(c)
	var ref lpRef
	col := func(j int) ratMat {
		v := make(ratMat, m)
		for i := 0; i < m; i++ {
			v[i] = []*big.Rat{ratOf(A[i][j])}
		}
		return v
	}
	bv := make(ratMat, m)
	for i := range bv {
		bv[i] = []*big.Rat{ratOf(b[i])}
	}
	idx := make([]int, m)
	var rec func(start, k int)
	rec = func(start, k int) {
		if k == m {
			B := make(ratMat, m)
			for i := 0; i < m; i++ {
				B[i] = make([]*big.Rat, m)
				for jj, j := range idx {
					B[i][jj] = ratOf(A[i][j])
				}
			}
			inB := map[int]bool{}
			for _, j := range idx {
				inB[j] = true
			}
			rhs := []ratMat{bv}
			var nonbasic []int
			for j := 0; j < n; j++ {
				if !inB[j] {
					nonbasic = append(nonbasic, j)
					rhs = append(rhs, col(j))
				}
			}
			sol, ok := ratSolve(B, rhs)
			if !ok {
				return
			}
			ref.fullRank = true
			ref.nBases++
			xb := sol[0]
			feas := true
			for i := 0; i < m; i++ {
				if xb[i][0].Sign() < 0 {
					feas = false
				}
			}
			if feas {
				ref.feasible = true
				positive := true
				for i := 0; i < m; i++ {
					positive = positive && xb[i][0].Sign() > 0
				}
				if positive {
					ref.strict = append(ref.strict, append([]int(nil), idx...))
				}
				cost := new(big.Rat)
				for i, j := range idx {
					cost.Add(cost, new(big.Rat).Mul(ratOf(c[j]), xb[i][0]))
					if xb[i][0].Sign() == 0 {
						ref.degenerate = true
					}
				}
				if ref.opt == nil || cost.Cmp(ref.opt) < 0 {
					ref.opt = cost
				}
			}
			// extreme rays of the recession cone
			for r, j := range nonbasic {
				d := sol[1+r] // B^-1 A_j
				ray := true
				red := ratOf(c[j])
				for i := 0; i < m; i++ {
					if d[i][0].Sign() > 0 {
						ray = false
						break
					}
					red.Sub(red, new(big.Rat).Mul(ratOf(c[idx[i]]), d[i][0]))
				}
				if ray && red.Sign() < 0 {
					ref.unbounded = true // provided the program is feasible
				}
			}
			return
		}
		for j := start; j <= n-(m-k); j++ {
			idx[k] = j
			rec(j+1, k+1)
		}
	}
	rec(0, 0)
	if !ref.feasible {
		ref.unbounded = false
	}
	return ref
}

func lpShow(c []float64, A [][]float64, b []float64) string {
	s := fmt.Sprintf("minimize %v.x subject to x >= 0 and", c)
	for i := range A {
		s += fmt.Sprintf("\n  %v.x = %v", A[i], b[i])
	}
	return s
}

// lpRawRunsOff: set after the first report about the representation of A in
// this process (the runs that read A through its raw storage are not bounded
// by the counting matrix).
var lpRawRunsOff bool

const lpLoopPanic = "verif: lp.Simplex does not return"

// lpCountingMatrix is a mat.Matrix that gives up after limit element reads.
// It does not embed the Dense: with the raw-matrix methods promoted, mat would
// read the elements without going through At.
type lpCountingMatrix struct {
	d            *mat.Dense
	reads, limit int
}

func (m *lpCountingMatrix) Dims() (int, int) { return m.d.Dims() }

func (m *lpCountingMatrix) At(i, j int) float64 {
	m.reads++
	if m.reads > m.limit {
		panic(lpLoopPanic)
	}
	return m.d.At(i, j)
}

func (m *lpCountingMatrix) T() mat.Matrix { return mat.Transpose{Matrix: m} }

func runLP(t *simrt.Tape, rc *RunCtx) *Violation {
	const prop = "C19"
	rc.declare("lp_optimal", "lp_infeasible", "lp_unbounded", "lp_rank_deficient", "lp_degenerate_vertex", "lp_numeric_failure_reported", "lp_convert_checked", "lp_square", "lp_corpus_program", "lp_warm_start_series")
	m := 1 + t.Choose(simrt.KWorkload, 4)
	n := m + t.Choose(simrt.KWorkload, 8-m)
	A := make([][]float64, m)
	shape := t.Choose(simrt.KWorkload, 5)
	for i := range A {
		A[i] = make([]float64, n)
		for j := range A[i] {
			A[i][j] = float64(t.Choose(simrt.KValue, 7) - 3)
			if shape == 1 && t.Choose(simrt.KValue, 2) == 1 {
				A[i][j] = 0 // sparse rows: degenerate vertices and infeasible programs are common
			}
		}
	}
	if shape == 2 && m >= 2 {
		// a dependent row: A is singular
		for j := range A[m-1] {
			A[m-1][j] = A[0][j] * 2
		}
	}
	if shape == 4 && n >= 2 {
		// the last column is a multiple of the one before it: an exactly
		// dependent set at the end of the matrix, where the search for an
		// initial basis starts
		k := []float64{1, -1, 2, -2}[t.Choose(simrt.KValue, 4)]
		for i := range A {
			A[i][n-1] = k * A[i][n-2]
		}
	}
	if shape == 3 {
		// a bounding row with positive coefficients: never unbounded
		for j := range A[0] {
			A[0][j] = float64(1 + t.Choose(simrt.KValue, 3))
		}
	}
	// no all-zero row or column (they have their own documented errors)
	for i := range A {
		zero := true
		for _, v := range A[i] {
			if v != 0 {
				zero = false
			}
		}
		if zero {
			A[i][t.Choose(simrt.KValue, n)] = 1
		}
	}
	// (an all-zero column is refused with ErrZeroColumn - unless its cost is
	// negative, when Simplex classifies the program without solving it; one
	// program in six keeps its zero columns, and gets one if it has none)
	keepZeroCols := n > m && t.Choose(simrt.KWorkload, 6) == 5
	if keepZeroCols {
		j := t.Choose(simrt.KValue, n)
		for i := range A {
			A[i][j] = 0
		}
		// every row must still have a nonzero
		for i := range A {
			zero := true
			for _, v := range A[i] {
				zero = zero && v == 0
			}
			if zero {
				A[i][(j+1)%n] = 1
			}
		}
	}
	for j := 0; j < n && !keepZeroCols; j++ {
		zero := true
		for i := range A {
			if A[i][j] != 0 {
				zero = false
			}
		}
		if zero {
			A[t.Choose(simrt.KValue, m)][j] = 1
		}
	}
	b := make([]float64, m)
	if t.Choose(simrt.KWorkload, 3) != 0 {
		// b = A x0 for a non-negative integer x0: feasible by construction
		x0 := make([]float64, n)
		for j := range x0 {
			x0[j] = float64(t.Choose(simrt.KValue, 4))
		}
		for i := range b {
			for j := range x0 {
				b[i] += A[i][j] * x0[j]
			}
		}
	} else {
		for i := range b {
			b[i] = float64(t.Choose(simrt.KValue, 9) - 4)
		}
	}
	c := make([]float64, n)
	for j := range c {
		c[j] = float64(t.Choose(simrt.KValue, 9) - 4)
	}
	corpusCase := -1
	if t.Choose(simrt.KWorkload, 100) == 99 {
		// corpus: the program on which finding 24 (Phase I panic, 6f8b956) was
		// first seen; the generator meets its like once in 10^6 programs
		m, n = 4, 6
		A = [][]float64{{-3, -3, -2, 1, 0, 2}, {-3, -3, -3, 3, -1, 0}, {-3, -3, -3, -3, 2, 2}, {-3, -3, -3, -2, 1, -3}}
		b = []float64{-5, -6, -12, -11}
		c = []float64{-4, -4, -4, -4, -4, -4}
		corpusCase = t.Choose(simrt.KWorkload, 6)
		switch corpusCase {
		case 2:
			// finding 53: simplex cycles through six bases (the anti-cycling
			// rule picks by position, not by variable index); exact optimum
			// -95/161
			m, n = 4, 7
			A = [][]float64{{2, -2, -2, 0, 3, 1, 0}, {1, -3, -3, 3, 1, 4, 0}, {3, 4, -3, 4, -3, 4, 0}, {1, 1, 1, 1, 1, 1, 1}}
			b = []float64{0, 0, 0, 1}
			c = []float64{1, 0, 3, 1, -2, -4, 0}
		case 3:
			// the same, unbounded
			m, n = 3, 7
			A = [][]float64{{2, 0, 5, -5, -3, 0, -1}, {-1, -5, 1, 3, 2, 0, -3}, {5, -3, 1, -2, 5, 1, 5}}
			b = []float64{0, 0, 4}
			c = []float64{-3, -5, 1, 4, 0, -5, -4}
		case 4:
			// finding 54: zeros of a degenerate vertex come out of the
			// solve as -1.0e-13 .. -1.9e-13 (square: x = (0, 0, 6, 2))
			m, n = 4, 4
			A = [][]float64{{-3, 3, -2, 3}, {3, 2, -3, -2}, {-1, -3, -3, -2}, {-2, 3, 0, 3}}
			b = []float64{-6, -22, -22, 6}
			c = []float64{-1, 2, -3, 1}
		case 5:
			// the same in Phase I: optimum 25, ErrLinSolve
			m, n = 4, 5
			A = [][]float64{{0, -4, 0, 3, -5}, {3, 5, -3, -5, -3}, {-5, 3, 2, 4, 5}, {4, 2, -2, -1, -5}}
			b = []float64{-41, 5, 37, -17}
			c = []float64{-2, 0, -3, -2, 5}
		case 1:
			// finding 49: a square program whose solution (0, 2, 2, 0) comes
			// out of the linear solve with -1.05e-13 for a zero (thorough
			// tier, seed 73, one program in 10^6)
			m, n = 4, 4
			A = [][]float64{{3, 2, 3, -1}, {-2, -3, 1, -2}, {-2, 3, 2, 1}, {-3, 2, 3, 0}}
			b = []float64{10, -4, 10, 10}
			c = []float64{-4, -4, -4, -4}
		}
		rc.probe("lp_corpus_program", 1)
	}
	rc.Instance["program"] = lpShow(c, A, b)
	rc.hist(fmt.Sprintf("m=%d", m))
	if m == n {
		rc.probe("lp_square", 1)
	}

	ref := lpReference(c, A, b)
	ad := mat.NewDense(m, n, nil)
	for i := range A {
		ad.SetRow(i, A[i])
	}
	var optF float64
	var optX []float64
	var err error
	var pan interface{}
	func() {
		defer func() { pan = recover() }()
		// (the matrix counts its element reads: a Simplex that never returns
		// ends with a panic of the harness's own after 3*10^5 of them,
		// thousands of times what the largest generated program needs)
		optF, optX, err = lp.Simplex(append([]float64(nil), c...), &lpCountingMatrix{d: ad, limit: 300000}, append([]float64(nil), b...), 1e-10, nil)
	}()
	if s, ok := pan.(string); ok && s == lpLoopPanic {
		// cycling needs a degenerate vertex: a hang on a program without
		// one is something else than known finding 53
		sig := "lp/simplex/does-not-return"
		degenerate := ref.degenerate
		for _, v := range b {
			degenerate = degenerate || v == 0
		}
		if degenerate {
			sig += "/degenerate-program"
		}
		_ = corpusCase
		return &Violation{prop, sig, fmt.Sprintf("Simplex was still running after 3*10^5 element reads of A (a solved program of this size needs a few thousand)\n%s", rc.Instance["program"])}
	}
	// the same program with A handed over as a view into a wider matrix (a
	// tableau [A | b | junk], Stride > Cols) and as a compact Dense: the answer
	// may not depend on the representation of A. (Only after the counting
	// matrix has shown that this program is solved at all.)
	if pan == nil && !lpRawRunsOff {
		wide := mat.NewDense(m, n+2, nil)
		for i := range A {
			for j := range A[i] {
				wide.Set(i, j, A[i][j])
			}
			wide.Set(i, n, b[i])
			wide.Set(i, n+1, 1e9)
		}
		for k, am := range []mat.Matrix{wide.Slice(0, m, 0, n), mat.DenseCopyOf(ad)} {
			var f2 float64
			var x2 []float64
			var err2 error
			var pan2 interface{}
			// (this call reads A through its raw storage, so nothing counts
			// its steps: should it fail to return - it cannot on a tree on
			// which the counted call above returned, unless the two paths
			// differ - a wall-clock limit ends the wait and the goroutine is
			// abandoned)
			done := make(chan struct{})
			go func() {
				defer close(done)
				defer func() { pan2 = recover() }()
				f2, x2, err2 = lp.Simplex(append([]float64(nil), c...), am, append([]float64(nil), b...), 1e-10, nil)
			}()
			select {
			case <-done:
			case <-time.After(3 * time.Second):
				lpRawRunsOff = true // one report is enough; every further one would cost the wait again
				return &Violation{prop, "lp/simplex/depends-on-representation-of-A", fmt.Sprintf("Simplex with A as %s has not returned after 3 s; with A behind the Matrix interface it returned F=%v X=%v err=%v\n%s", []string{"a view with Stride > Cols", "a compact *mat.Dense"}[k], optF, optX, err, rc.Instance["program"])}
			}
			rc.oracle("simplex-representation-of-A")
			same := pan2 == nil && (err == nil) == (err2 == nil) && (err == nil || err.Error() == err2.Error()) && math.Float64bits(f2) == math.Float64bits(optF) && len(x2) == len(optX)
			for j := range x2 {
				same = same && math.Float64bits(x2[j]) == math.Float64bits(optX[j])
			}
			if !same {
				lpRawRunsOff = true
				return &Violation{prop, "lp/simplex/depends-on-representation-of-A", fmt.Sprintf("Simplex with A as %s returns F=%v X=%v err=%v (panic %v); with A behind the Matrix interface F=%v X=%v err=%v\n%s", []string{"a view with Stride > Cols", "a compact *mat.Dense"}[k], f2, x2, err2, pan2, optF, optX, err, rc.Instance["program"])}
			}
		}
	}
	rc.oracle("simplex-vs-exact-enumeration")
	where := rc.Instance["program"].(string)
	if pan != nil {
		return &Violation{prop, "lp/simplex/panic", fmt.Sprintf("Simplex panicked: %v\n%s", pan, where)}
	}
	// (ErrZeroColumn is a documented refusal to solve, not a classification)
	numeric := errors.Is(err, lp.ErrBland) || errors.Is(err, lp.ErrLinSolve) || errors.Is(err, lp.ErrZeroColumn)
	switch {
	case !ref.fullRank:
		rc.probe("lp_rank_deficient", 1)
		if err == nil {
			return &Violation{prop, "lp/simplex/singular-accepted", fmt.Sprintf("A has no nonsingular basis (row rank < m), documented: an error; Simplex returned F=%v X=%v\n%s", optF, optX, where)}
		}
	case !ref.feasible:
		rc.probe("lp_infeasible", 1)
		if numeric {
			rc.probe("lp_numeric_failure_reported", 1)
			return nil
		}
		if !errors.Is(err, lp.ErrInfeasible) {
			sig := "lp/simplex/infeasible-misclassified"
			if errors.Is(err, lp.ErrUnbounded) {
				// the input check answers for a zero column with a negative
				// cost before anything is solved (known finding)
				for j := 0; j < n; j++ {
					zero := c[j] < 0
					for i := range A {
						zero = zero && A[i][j] == 0
					}
					if zero {
						sig += "/zero-column-with-negative-cost"
						break
					}
				}
			}
			return &Violation{prop, sig, fmt.Sprintf("no basis of the %d nonsingular ones is feasible, so the program is infeasible; Simplex returned F=%v X=%v err=%v\n%s", ref.nBases, optF, optX, err, where)}
		}
	case ref.unbounded:
		rc.probe("lp_unbounded", 1)
		if numeric {
			rc.probe("lp_numeric_failure_reported", 1)
			return nil
		}
		if !errors.Is(err, lp.ErrUnbounded) {
			return &Violation{prop, "lp/simplex/unbounded-misclassified", fmt.Sprintf("the program is feasible and has a ray of decreasing cost, so it is unbounded; Simplex returned F=%v X=%v err=%v\n%s", optF, optX, err, where)}
		}
	default:
		rc.probe("lp_optimal", 1)
		if ref.degenerate {
			rc.probe("lp_degenerate_vertex", 1)
		}
		if numeric {
			rc.probe("lp_numeric_failure_reported", 1)
			return nil
		}
		want, _ := ref.opt.Float64()
		if err != nil {
			return &Violation{prop, "lp/simplex/optimal-misclassified", fmt.Sprintf("the program has the optimum %v; Simplex returned err=%v\n%s", want, err, where)}
		}
		if len(optX) != n {
			return &Violation{prop, "lp/simplex/solution-shape", fmt.Sprintf("Simplex returned %d values for %d variables\n%s", len(optX), n, where)}
		}
		var cx float64
		for j := range optX {
			cx += c[j] * optX[j]
			if !(optX[j] >= -1e-9) {
				return &Violation{prop, "lp/simplex/solution-infeasible", fmt.Sprintf("Simplex returned X=%v with a negative component\n%s", optX, where)}
			}
		}
		for i := range A {
			var r float64
			for j := range optX {
				r += A[i][j] * optX[j]
			}
			if math.Abs(r-b[i]) > 1e-8*(1+math.Abs(b[i])) {
				return &Violation{prop, "lp/simplex/solution-infeasible", fmt.Sprintf("Simplex returned X=%v; row %d gives %v, want %v\n%s", optX, i, r, b[i], where)}
			}
		}
		tol := 1e-8 * (1 + math.Abs(want))
		if math.Abs(optF-want) > tol || math.Abs(cx-optF) > tol {
			return &Violation{prop, "lp/simplex/not-optimal", fmt.Sprintf("Simplex returned F=%v at X=%v (c.X=%v); the least cost over the %d basic feasible solutions is %v\n%s", optF, optX, cx, ref.nBases, want, where)}
		}
	}

	// Warm starts: a caller who knows a feasible basis hands it over as
	// initialBasic, and keeps handing over the same slice while the right-hand
	// side changes (b' = A_B y with y > 0 keeps that basis feasible). Every
	// solve of the series must give the optimum of its program. Programs with
	// a degenerate vertex are left out (known finding: cycling).
	if pan == nil && ref.fullRank && ref.feasible && !ref.degenerate && len(ref.strict) > 0 && n > m && t.Choose(simrt.KWorkload, 2) == 1 {
		given := ref.strict[t.Choose(simrt.KWorkload, len(ref.strict))]
		if t.Choose(simrt.KWorkload, 2) == 1 {
			// the order of the indices is the caller's business
			given = append([]int(nil), given...)
			for i := len(given) - 1; i > 0; i-- {
				k := t.Choose(simrt.KWorkload, i+1)
				given[i], given[k] = given[k], given[i]
			}
		}
		basis := append([]int(nil), given...)
		rc.probe("lp_warm_start_series", 1)
		for step := 0; step < 3; step++ {
			bs, refS := b, ref
			if step > 0 {
				bs = make([]float64, m)
				for _, j := range given {
					y := float64(1 + t.Choose(simrt.KValue, 4))
					for i := range bs {
						bs[i] += A[i][j] * y
					}
				}
				refS = lpReference(c, A, bs)
				if refS.degenerate {
					continue
				}
			}
			whereS := fmt.Sprintf("solve %d of a series with initialBasic=%v (handed over as %v)\n%s", step, given, basis, lpShow(c, A, bs))
			var f float64
			var x []float64
			var errS error
			var panS interface{}
			func() {
				defer func() { panS = recover() }()
				f, x, errS = lp.Simplex(append([]float64(nil), c...), &lpCountingMatrix{d: ad, limit: 300000}, append([]float64(nil), bs...), 1e-10, basis)
			}()
			rc.oracle("simplex-warm-start-series")
			if panS != nil {
				return &Violation{prop, "lp/simplex/warm-start/panic", fmt.Sprintf("Simplex panicked: %v; the basis %v is feasible with a strictly positive basic solution\n%s", panS, given, whereS)}
			}
			if errors.Is(errS, lp.ErrBland) || errors.Is(errS, lp.ErrLinSolve) {
				rc.probe("lp_numeric_failure_reported", 1)
				continue
			}
			if refS.unbounded {
				if !errors.Is(errS, lp.ErrUnbounded) {
					return &Violation{prop, "lp/simplex/warm-start/unbounded-misclassified", fmt.Sprintf("the program is unbounded; Simplex returned F=%v X=%v err=%v\n%s", f, x, errS, whereS)}
				}
				continue
			}
			want, _ := refS.opt.Float64()
			if errS != nil || len(x) != n {
				return &Violation{prop, "lp/simplex/warm-start/optimal-misclassified", fmt.Sprintf("the program has the optimum %v; Simplex returned F=%v X=%v err=%v\n%s", want, f, x, errS, whereS)}
			}
			var cx float64
			ok := true
			for j := range x {
				cx += c[j] * x[j]
				ok = ok && x[j] >= -1e-9
			}
			for i := range A {
				var r float64
				for j := range x {
					r += A[i][j] * x[j]
				}
				ok = ok && math.Abs(r-bs[i]) <= 1e-8*(1+math.Abs(bs[i]))
			}
			tol := 1e-8 * (1 + math.Abs(want))
			if !ok || math.Abs(f-want) > tol || math.Abs(cx-f) > tol {
				return &Violation{prop, "lp/simplex/warm-start/not-optimal", fmt.Sprintf("Simplex returned F=%v at X=%v (c.X=%v, feasible=%v); the optimum is %v\n%s", f, x, cx, ok, want, whereS)}
			}
		}
	}

	// Convert: a bounded general-form program in k <= 3 free variables,
	// min c.x, Gx <= h (including a box), Ex = e; its optimum by vertex
	// enumeration (k active constraints at a time) must be the optimum of the
	// standard form that Convert produces.
	if t.Choose(simrt.KWorkload, 2) == 1 {
		if v := lpConvertCheck(t, rc); v != nil {
			return v
		}
	}
	return nil
}

func lpConvertCheck(t *simrt.Tape, rc *RunCtx) *Violation {
	const prop = "C19"
	k := 1 + t.Choose(simrt.KWorkload, 3)
	nineq := t.Choose(simrt.KWorkload, 3)
	neq := t.Choose(simrt.KWorkload, 2)
	if neq >= k {
		neq = k - 1
	}
	var G [][]float64
	var h []float64
	const box = 5
	for i := 0; i < k; i++ {
		up, lo := make([]float64, k), make([]float64, k)
		up[i], lo[i] = 1, -1
		G = append(G, up, lo)
		h = append(h, box, box)
	}
	for i := 0; i < nineq; i++ {
		row := make([]float64, k)
		for j := range row {
			row[j] = float64(t.Choose(simrt.KValue, 7) - 3)
		}
		G = append(G, row)
		h = append(h, float64(t.Choose(simrt.KValue, 9)-2))
	}
	var E [][]float64
	var e []float64
	for i := 0; i < neq; i++ {
		row := make([]float64, k)
		for j := range row {
			row[j] = float64(t.Choose(simrt.KValue, 5) - 2)
		}
		nz := false
		for _, v := range row {
			if v != 0 {
				nz = true
			}
		}
		if !nz {
			row[0] = 1
		}
		E = append(E, row)
		e = append(e, float64(t.Choose(simrt.KValue, 5)-2))
	}
	c := make([]float64, k)
	for j := range c {
		c[j] = float64(t.Choose(simrt.KValue, 9) - 4)
	}
	// exact optimum: every vertex is the solution of k independent active
	// constraints, the equalities always among them
	rows := append(append([][]float64(nil), E...), G...)
	rhs := append(append([]float64(nil), e...), h...)
	var best *big.Rat
	idx := make([]int, k)
	var rec func(start, d int)
	rec = func(start, d int) {
		if d == k {
			B := make(ratMat, k)
			bv := make(ratMat, k)
			for i, r := range idx {
				B[i] = make([]*big.Rat, k)
				for j := 0; j < k; j++ {
					B[i][j] = ratOf(rows[r][j])
				}
				bv[i] = []*big.Rat{ratOf(rhs[r])}
			}
			sol, ok := ratSolve(B, []ratMat{bv})
			if !ok {
				return
			}
			x := sol[0]
			// feasibility
			for i := range rows {
				lhs := new(big.Rat)
				for j := 0; j < k; j++ {
					lhs.Add(lhs, new(big.Rat).Mul(ratOf(rows[i][j]), x[j][0]))
				}
				cmp := lhs.Cmp(ratOf(rhs[i]))
				if (i < len(E) && cmp != 0) || (i >= len(E) && cmp > 0) {
					return
				}
			}
			cost := new(big.Rat)
			for j := 0; j < k; j++ {
				cost.Add(cost, new(big.Rat).Mul(ratOf(c[j]), x[j][0]))
			}
			if best == nil || cost.Cmp(best) < 0 {
				best = cost
			}
			return
		}
		for r := start; r < len(rows); r++ {
			if d < len(E) && r != d {
				continue // the equalities are always active
			}
			idx[d] = r
			rec(r+1, d+1)
		}
	}
	rec(0, 0)
	desc := fmt.Sprintf("minimize %v.x subject to G=%v h=%v, E=%v e=%v", c, G, h, E, e)
	gm := mat.NewDense(len(G), k, nil)
	for i := range G {
		gm.SetRow(i, G[i])
	}
	var em mat.Matrix
	if len(E) > 0 {
		d := mat.NewDense(len(E), k, nil)
		for i := range E {
			d.SetRow(i, E[i])
		}
		em = d
	}
	var optF float64
	var err error
	var pan interface{}
	func() {
		defer func() { pan = recover() }()
		cNew, aNew, bNew := lp.Convert(append([]float64(nil), c...), gm, append([]float64(nil), h...), em, append([]float64(nil), e...))
		optF, _, err = lp.Simplex(cNew, aNew, bNew, 1e-10, nil)
	}()
	rc.oracle("convert-preserves-optimum")
	rc.probe("lp_convert_checked", 1)
	if pan != nil {
		return &Violation{prop, "lp/convert/panic", fmt.Sprintf("Convert + Simplex panicked: %v\n%s", pan, desc)}
	}
	if errors.Is(err, lp.ErrBland) || errors.Is(err, lp.ErrLinSolve) || errors.Is(err, lp.ErrSingular) || errors.Is(err, lp.ErrZeroRow) || errors.Is(err, lp.ErrZeroColumn) {
		// rank-deficient equality rows and numeric failures are reported, not decided
		rc.probe("lp_numeric_failure_reported", 1)
		return nil
	}
	if best == nil {
		if !errors.Is(err, lp.ErrInfeasible) {
			return &Violation{prop, "lp/convert/infeasible-misclassified", fmt.Sprintf("the general-form program has no feasible vertex inside its box, so it is infeasible; Simplex on the converted program returned F=%v err=%v\n%s", optF, err, desc)}
		}
		return nil
	}
	want, _ := best.Float64()
	if err != nil || math.Abs(optF-want) > 1e-8*(1+math.Abs(want)) {
		return &Violation{prop, "lp/convert/optimum-changed", fmt.Sprintf("the general-form program has the optimum %v; Simplex on the converted program returned F=%v err=%v\n%s", want, optF, err, desc)}
	}
	return nil
}
