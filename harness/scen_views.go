package main

import (
	"fmt"
	"math"

	"gonum.org/v1/gonum/mat"
	"verif/simrt"
)

// S4b "views": independent operations on DISJOINT VIEWS of one backing matrix,
// issued from several goroutines at once ("independent operations on disjoint
// data ... with the same results as when run one at a time and without data
// races"). Every client owns one block of a shared r x C backing matrix - a
// column block, a row block or an interior block, so that views start at
// column 0, end at the right edge, or neither - and performs a sequence of
// receiver-style operations into its view. Afterwards
//
//   - every block holds what the same operations give on a standalone matrix;
//   - every element of the backing matrix outside the blocks still holds its
//     sentinel;
//   - the race lane saw no conflicting access.
//
// A wrong fast path for "contiguous" storage, a workspace copied back with the
// wrong stride, or a receiver re-sliced beyond its view shows up as a
// neighbour's block or the margin being overwritten.

func init() {
	register(&Scenario{Name: "views", Props: []string{"C09"}, Run: runViews})
}

type viewOp struct {
	name string
	// run performs the operation with dst as receiver; dst is r x c and
	// non-empty. square reports whether the operation needs r == c.
	square bool
	run    func(dst *mat.Dense, r *opRand, rows, cols int)
}

var viewOps = []viewOp{
	{"Mul", false, func(dst *mat.Dense, r *opRand, rows, cols int) {
		dst.Mul(r.dense(rows, 3), r.dense(3, cols))
	}},
	{"Mul(receiver is an operand)", true, func(dst *mat.Dense, r *opRand, rows, cols int) {
		dst.Mul(dst, r.dense(rows, cols))
	}},
	{"Add", false, func(dst *mat.Dense, r *opRand, rows, cols int) {
		dst.Add(r.dense(rows, cols), r.dense(rows, cols))
	}},
	{"Sub(receiver is an operand)", false, func(dst *mat.Dense, r *opRand, rows, cols int) {
		dst.Sub(dst, r.dense(rows, cols))
	}},
	{"Scale", false, func(dst *mat.Dense, r *opRand, rows, cols int) {
		dst.Scale(r.next(), r.dense(rows, cols))
	}},
	{"MulElem", false, func(dst *mat.Dense, r *opRand, rows, cols int) {
		dst.MulElem(r.dense(rows, cols), r.dense(rows, cols))
	}},
	{"Apply", false, func(dst *mat.Dense, r *opRand, rows, cols int) {
		dst.Apply(func(i, j int, v float64) float64 { return v + float64(i-j) }, r.dense(rows, cols))
	}},
	{"Copy", false, func(dst *mat.Dense, r *opRand, rows, cols int) {
		dst.Copy(r.dense(rows, cols))
	}},
	{"Zero", false, func(dst *mat.Dense, r *opRand, rows, cols int) {
		dst.Zero()
	}},
	{"Outer", false, func(dst *mat.Dense, r *opRand, rows, cols int) {
		dst.Outer(r.next(), r.vec(rows), r.vec(cols))
	}},
	{"RankOne", false, func(dst *mat.Dense, r *opRand, rows, cols int) {
		dst.RankOne(r.dense(rows, cols), r.next(), r.vec(rows), r.vec(cols))
	}},
	{"Product", false, func(dst *mat.Dense, r *opRand, rows, cols int) {
		dst.Product(r.dense(rows, 2), r.dense(2, 4), r.dense(4, cols))
	}},
	{"Pow", true, func(dst *mat.Dense, r *opRand, rows, cols int) {
		a := r.dense(rows, rows)
		a.Scale(0.25, a)
		dst.Pow(a, 3)
	}},
	{"Exp", true, func(dst *mat.Dense, r *opRand, rows, cols int) {
		a := r.dense(rows, rows)
		a.Scale(0.125, a)
		dst.Exp(a)
	}},
	{"Inverse", true, func(dst *mat.Dense, r *opRand, rows, cols int) {
		dst.Inverse(r.wellCond(rows))
	}},
	{"Solve", false, func(dst *mat.Dense, r *opRand, rows, cols int) {
		dst.Solve(r.wellCond(rows), r.dense(rows, cols))
	}},
	{"Permutation", true, func(dst *mat.Dense, r *opRand, rows, cols int) {
		p := make([]int, rows)
		for i := range p {
			p[i] = (i + 1) % rows
		}
		dst.Permutation(rows, p)
	}},
	{"Cholesky.SolveTo", false, func(dst *mat.Dense, r *opRand, rows, cols int) {
		var ch mat.Cholesky
		ch.Factorize(r.spd(rows))
		ch.SolveTo(dst, r.dense(rows, cols))
	}},
	{"LU.SolveTo", false, func(dst *mat.Dense, r *opRand, rows, cols int) {
		var lu mat.LU
		lu.Factorize(r.wellCond(rows))
		lu.SolveTo(dst, false, r.dense(rows, cols))
	}},
	{"QR.QTo/RTo into a view", true, func(dst *mat.Dense, r *opRand, rows, cols int) {
		var qr mat.QR
		qr.Factorize(r.dense(rows, rows))
		qr.QTo(dst)
	}},
	{"Kronecker", false, func(dst *mat.Dense, r *opRand, rows, cols int) {
		dst.Kronecker(r.dense(rows, 1), r.dense(1, cols))
	}},
	{"Stack/Augment of halves", false, func(dst *mat.Dense, r *opRand, rows, cols int) {
		if rows >= 2 {
			dst.Stack(r.dense(rows/2, cols), r.dense(rows-rows/2, cols))
		} else {
			dst.Copy(r.dense(rows, cols))
		}
	}},
	{"DivElem", false, func(dst *mat.Dense, r *opRand, rows, cols int) {
		d := r.dense(rows, cols)
		d.Apply(func(_, _ int, v float64) float64 { return v + 9 }, d)
		dst.DivElem(r.dense(rows, cols), d)
	}},
}

type viewStep struct {
	op   int
	seed uint64
}

type viewBlock struct {
	i0, i1, j0, j1 int
	steps          []viewStep
}

const viewSentinel = -12345.5

func runViews(t *simrt.Tape, rc *RunCtx) *Violation {
	const prop = "C09"
	rc.declare("view_ends_at_right_edge_not_at_column_0", "interior_view", "clients>=4")
	k := 2 + t.Choose(simrt.KWorkload, 3+scale)
	layout := t.Choose(simrt.KWorkload, 3) // 0 column blocks, 1 row blocks, 2 interior blocks with margins
	size := 1 + t.Choose(simrt.KWorkload, 6)
	square := t.Choose(simrt.KWorkload, 2) == 1
	other := size
	if !square {
		other = 1 + t.Choose(simrt.KWorkload, 6)
	}
	margin := 0
	if layout == 2 {
		margin = 1 + t.Choose(simrt.KWorkload, 2)
	}
	var R, C int
	blocks := make([]viewBlock, k)
	for b := range blocks {
		switch layout {
		case 0: // column blocks: rows = other, each block size columns
			blocks[b] = viewBlock{0, other, b * size, (b + 1) * size, nil}
			R, C = other, k*size
		case 1:
			blocks[b] = viewBlock{b * size, (b + 1) * size, 0, other, nil}
			R, C = k*size, other
		default:
			blocks[b] = viewBlock{margin, margin + other, margin + b*(size+margin), margin + b*(size+margin) + size, nil}
			R, C = other+2*margin, margin+k*(size+margin)
		}
	}
	var desc []string
	for b := range blocks {
		bl := &blocks[b]
		rows, cols := bl.i1-bl.i0, bl.j1-bl.j0
		n := 1 + t.Choose(simrt.KWorkload, 3)
		d := fmt.Sprintf("block %d rows %d..%d cols %d..%d:", b, bl.i0, bl.i1, bl.j0, bl.j1)
		for s := 0; s < n; s++ {
			op := t.Choose(simrt.KWorkload, len(viewOps))
			if viewOps[op].square && rows != cols {
				op = t.Choose(simrt.KWorkload, 12) // the first twelve but one take any shape
				if viewOps[op].square {
					op = 0
				}
			}
			bl.steps = append(bl.steps, viewStep{op, uint64(t.Choose(simrt.KValue, 1<<30))})
			d += " " + viewOps[op].name
		}
		desc = append(desc, d)
		if bl.j1 == C && bl.j0 > 0 {
			rc.probe("view_ends_at_right_edge_not_at_column_0", 1)
		}
		if bl.j0 > 0 && bl.j1 < C && bl.i0 > 0 {
			rc.probe("interior_view", 1)
		}
	}
	rc.Instance["backing"] = fmt.Sprintf("%dx%d", R, C)
	rc.Instance["blocks"] = desc
	if k >= 4 {
		rc.probe("clients>=4", 1)
	}

	// half of the runs hand the operations operands that are themselves views
	// with the stride and column offset of the receiver's view ("same layout")
	operandViews := t.Choose(simrt.KWorkload, 2) == 1
	rc.Instance["operands_are_views_of_the_same_layout"] = operandViews
	runBlock := func(dst *mat.Dense, bl *viewBlock) {
		rows, cols := bl.i1-bl.i0, bl.j1-bl.j0
		for _, st := range bl.steps {
			r := &opRand{s: st.seed}
			if operandViews {
				r.viewStride, r.viewOff = C, bl.j0
			}
			viewOps[st.op].run(dst, r, rows, cols)
		}
	}
	// reference: each block's operations on a standalone matrix that starts
	// with the sentinel, one block at a time, fresh workspaces
	ref := make([]*mat.Dense, k)
	if _, v := rc.Sim(prop, simrt.ReplayTape(nil), baselineConfig(), func() {
		for b := range blocks {
			bl := &blocks[b]
			m := mat.NewDense(bl.i1-bl.i0, bl.j1-bl.j0, nil)
			m.Apply(func(_, _ int, _ float64) float64 { return viewSentinel }, m)
			runBlock(m, bl)
			ref[b] = m
		}
	}); v != nil {
		v.Msg = "[reference: standalone matrices, one block at a time] " + v.Msg
		return v
	}
	backing := mat.NewDense(R, C, nil)
	backing.Apply(func(_, _ int, _ float64) float64 { return viewSentinel }, backing)
	cfg := drawConfig(t, 150*k)
	cfg.PoolMode = simrt.PoolTape
	cfg.PoolPoison = t.Choose(simrt.KFault, 4) != 0
	rc.Instance["policy"] = cfg.Policy.String()
	rc.Instance["gomaxprocs"] = cfg.GOMAXPROCS
	if _, v := rc.Sim(prop, t, cfg, func() {
		var wg simrt.WaitGroup
		for b := 1; b < k; b++ {
			b := b
			wg.Add(1)
			simrt.Go(9300, func() {
				defer wg.Done()
				bl := &blocks[b]
				runBlock(backing.Slice(bl.i0, bl.i1, bl.j0, bl.j1).(*mat.Dense), bl)
			})
		}
		bl := &blocks[0]
		runBlock(backing.Slice(bl.i0, bl.i1, bl.j0, bl.j1).(*mat.Dense), bl)
		wg.Wait()
	}); v != nil {
		return v
	}
	rc.oracle("views-as-standalone")
	owner := func(i, j int) int {
		for b := range blocks {
			if i >= blocks[b].i0 && i < blocks[b].i1 && j >= blocks[b].j0 && j < blocks[b].j1 {
				return b
			}
		}
		return -1
	}
	for i := 0; i < R; i++ {
		for j := 0; j < C; j++ {
			got := backing.At(i, j)
			b := owner(i, j)
			if b < 0 {
				if got != viewSentinel {
					return &Violation{prop, "views/margin-overwritten", fmt.Sprintf("element (%d,%d) of the %dx%d backing matrix belongs to no view and was changed to %v; %v", i, j, R, C, got, desc)}
				}
				continue
			}
			want := ref[b].At(i-blocks[b].i0, j-blocks[b].j0)
			if math.Float64bits(got) != math.Float64bits(want) {
				return &Violation{prop, "views/result-differs", fmt.Sprintf("element (%d,%d) of the %dx%d backing matrix (block %d) is %v with %d clients working on disjoint views, %v when the block's operations run on a standalone matrix; %v", i, j, R, C, b, got, k, want, desc)}
			}
		}
	}
	return nil
}
