package main

import (
	"fmt"
	"math"

	"gonum.org/v1/gonum/blas"
	"gonum.org/v1/gonum/blas/gonum"
	"verif/simrt"
)

// S1: parallel Dgemm / Sgemm (DESIGN.md section 4).

type gemmInst struct {
	single       bool // float32
	tA, tB       blas.Transpose
	m, n, k      int
	alpha        float64
	beta         float64
	lda          int
	ldb          int
	ldc          int
	a, b, c      []float64 // float32 instances hold float32-representable values
	exact        bool      // small integers: every product and sum is exact
	parallel     bool
	nanC         bool
	rowsA, colsA int
	rowsB, colsB int
}

func gemmBlocks(d int) int { return (d + 63) / 64 }

func drawGemm(t *simrt.Tape) *gemmInst {
	g := &gemmInst{}
	g.single = t.Choose(simrt.KWorkload, 3) == 2
	if t.Choose(simrt.KWorkload, 2) == 1 {
		g.tA = blas.Trans
	} else {
		g.tA = blas.NoTrans
	}
	if t.Choose(simrt.KWorkload, 2) == 1 {
		g.tB = blas.Trans
	} else {
		g.tB = blas.NoTrans
	}
	dim := func() int {
		switch t.Choose(simrt.KWorkload, 6) {
		case 0:
			return 65
		case 1:
			return 128 + t.Choose(simrt.KWorkload, 3) // 128, 129, 130: block edge
		case 2:
			return 64 + t.Choose(simrt.KWorkload, 2) // 64 (one block) or 65
		}
		return 65 + t.Choose(simrt.KWorkload, 80+40*scale)
	}
	g.m, g.n = dim(), dim()
	if t.Choose(simrt.KWorkload, 8) == 7 {
		// control group below the parallel threshold
		g.m = 1 + t.Choose(simrt.KWorkload, 64)
	}
	g.k = []int{0, 1, 63, 64, 65, 130, 7, 33}[t.Choose(simrt.KWorkload, 8)]
	g.parallel = gemmBlocks(g.m)*gemmBlocks(g.n) >= 4
	sc := []float64{1, 0, 2, -0.5, 3}
	g.alpha = sc[t.Choose(simrt.KValue, len(sc))]
	g.beta = sc[t.Choose(simrt.KValue, len(sc))]
	g.exact = t.Choose(simrt.KWorkload, 2) == 0
	g.rowsA, g.colsA = g.m, g.k
	if g.tA == blas.Trans {
		g.rowsA, g.colsA = g.k, g.m
	}
	g.rowsB, g.colsB = g.k, g.n
	if g.tB == blas.Trans {
		g.rowsB, g.colsB = g.n, g.k
	}
	pad := func() int { return []int{0, 0, 1, 5}[t.Choose(simrt.KWorkload, 4)] }
	max1 := func(x int) int {
		if x < 1 {
			return 1
		}
		return x
	}
	g.lda, g.ldb, g.ldc = max1(g.colsA)+pad(), max1(g.colsB)+pad(), max1(g.n)+pad()
	// values from a cheap generator seeded by the tape (not one draw per element)
	state := uint64(t.Choose(simrt.KValue, 1<<30)) | 1
	next := func() float64 {
		state += 0x9e3779b97f4a7c15
		z := state
		z = (z ^ (z >> 30)) * 0xbf58476d1ce4e5b9
		z = (z ^ (z >> 27)) * 0x94d049bb133111eb
		z ^= z >> 31
		if g.exact {
			return float64(int(z%7) - 3)
		}
		v := float64(int64(z>>40)-(1<<23)) / (1 << 20) // in [-8, 8), 24 significant bits: exact in float32
		return v
	}
	fill := func(rows, ld int) []float64 {
		s := make([]float64, max1(rows)*ld)
		for i := range s {
			s[i] = next()
		}
		return s
	}
	g.a = fill(g.rowsA, g.lda)
	g.b = fill(g.rowsB, g.ldb)
	g.c = fill(g.m+2, g.ldc) // two rows beyond the m x n window: must stay untouched
	if g.beta == 0 && t.Choose(simrt.KWorkload, 2) == 1 {
		// with beta == 0 C is an output only: what it holds on entry, NaN and
		// Inf included, must not reach the result
		for i := 0; i < g.m; i++ {
			for j := 0; j < g.n; j++ {
				if (i+j)%3 == 0 {
					g.c[i*g.ldc+j] = math.NaN()
				} else if (i+j)%7 == 0 {
					g.c[i*g.ldc+j] = math.Inf(1)
				}
			}
		}
		g.nanC = true
	}
	return g
}

func (g *gemmInst) run(c []float64) {
	impl := gonum.Implementation{}
	if !g.single {
		impl.Dgemm(g.tA, g.tB, g.m, g.n, g.k, g.alpha, g.a, g.lda, g.b, g.ldb, g.beta, c, g.ldc)
		return
	}
	a32, b32, c32 := to32(g.a), to32(g.b), to32(c)
	impl.Sgemm(g.tA, g.tB, g.m, g.n, g.k, float32(g.alpha), a32, g.lda, b32, g.ldb, float32(g.beta), c32, g.ldc)
	for i, v := range c32 {
		c[i] = float64(v)
	}
	// operands must be unchanged
	for i, v := range a32 {
		if float64(v) != g.a[i] {
			g.a[i] = math.NaN()
		}
	}
	for i, v := range b32 {
		if float64(v) != g.b[i] {
			g.b[i] = math.NaN()
		}
	}
}

func to32(s []float64) []float32 {
	o := make([]float32, len(s))
	for i, v := range s {
		o[i] = float32(v)
	}
	return o
}

func (g *gemmInst) at(mtx []float64, ld int, trans blas.Transpose, i, j int) float64 {
	if trans == blas.Trans {
		return mtx[j*ld+i]
	}
	return mtx[i*ld+j]
}

func init() {
	register(&Scenario{Name: "gemm", Props: []string{"C09"}, Run: runGemm})
}

func runGemm(t *simrt.Tape, rc *RunCtx) *Violation {
	const prop = "C09"
	g := drawGemm(t)
	kind := "Dgemm"
	if g.single {
		kind = "Sgemm"
	}
	rc.Instance["routine"] = kind
	rc.Instance["shape"] = fmt.Sprintf("tA=%v tB=%v m=%d n=%d k=%d lda=%d ldb=%d ldc=%d", g.tA == blas.Trans, g.tB == blas.Trans, g.m, g.n, g.k, g.lda, g.ldb, g.ldc)
	rc.Instance["alpha_beta"] = fmt.Sprintf("%v %v", g.alpha, g.beta)
	rc.Instance["exact_integers"] = g.exact
	rc.Instance["blocks"] = gemmBlocks(g.m) * gemmBlocks(g.n)
	rc.declare("beta_zero_with_nan_in_C", "parallel_path", "serial_control_group", "gomaxprocs_below_blocks", "worker_limit_blocked", "block_goroutines_live>=4")
	a0 := append([]float64(nil), g.a...)
	b0 := append([]float64(nil), g.b...)
	c0 := append([]float64(nil), g.c...)

	// baseline: round-robin, GOMAXPROCS=1
	cBase := append([]float64(nil), c0...)
	if _, v := rc.Sim(prop, simrt.ReplayTape(nil), baselineConfig(), func() { g.run(cBase) }); v != nil {
		v.Msg = "[baseline] " + v.Msg
		return v
	}
	cfg := drawConfig(t, 40*gemmBlocks(g.m)*gemmBlocks(g.n))
	rc.Instance["policy"] = cfg.Policy.String()
	rc.Instance["gomaxprocs"] = cfg.GOMAXPROCS
	cTest := append([]float64(nil), c0...)
	// C as it is at the moment the call returns: block workers may still be
	// alive then (they release their slot after signalling), but they must be
	// done with C
	atReturn := make([]float64, len(c0))
	out, v := rc.Sim(prop, t, cfg, func() {
		g.run(cTest)
		copy(atReturn, cTest)
	})
	if v != nil {
		return v
	}
	rc.oracle("complete-at-return")
	for i := range cTest {
		if math.Float64bits(cTest[i]) != math.Float64bits(atReturn[i]) {
			return &Violation{prop, "gemm/modified-after-return", fmt.Sprintf("%s %v: C[%d,%d] was %v when the call returned and %v after the remaining goroutines had finished (policy %v, GOMAXPROCS=%d, NumCPU=%d): the call returned before its workers were done",
				kind, rc.Instance["shape"], i/g.ldc, i%g.ldc, atReturn[i], cTest[i], cfg.Policy, cfg.GOMAXPROCS, cfg.NumCPU)}
		}
	}
	if g.parallel {
		rc.probe("parallel_path", 1)
		if cfg.GOMAXPROCS < gemmBlocks(g.m)*gemmBlocks(g.n) {
			rc.probe("gomaxprocs_below_blocks", 1)
		}
		if out.Stats.ChanBlocked > 0 {
			rc.probe("worker_limit_blocked", 1)
		}
		if out.MaxLive >= 5 {
			rc.probe("block_goroutines_live>=4", 1)
		}
	} else {
		rc.probe("serial_control_group", 1)
	}
	// (b) bit identity across schedules and GOMAXPROCS
	rc.oracle("bit-identity")
	for i := range cTest {
		if math.Float64bits(cTest[i]) != math.Float64bits(cBase[i]) {
			return &Violation{prop, "gemm/bit-identity", fmt.Sprintf("%s %v: C[%d,%d] = %v under policy %v GOMAXPROCS=%d but %v in the round-robin GOMAXPROCS=1 run of the same call",
				kind, rc.Instance["shape"], i/g.ldc, i%g.ldc, cTest[i], cfg.Policy, cfg.GOMAXPROCS, cBase[i])}
		}
	}
	// (d) operands and padding untouched
	rc.oracle("operands-untouched")
	for i := range a0 {
		if math.Float64bits(a0[i]) != math.Float64bits(g.a[i]) {
			return &Violation{prop, "gemm/operand-modified", fmt.Sprintf("%s modified A[%d]", kind, i)}
		}
	}
	for i := range b0 {
		if math.Float64bits(b0[i]) != math.Float64bits(g.b[i]) {
			return &Violation{prop, "gemm/operand-modified", fmt.Sprintf("%s modified B[%d]", kind, i)}
		}
	}
	for i := 0; i < g.m+2; i++ {
		for j := 0; j < g.ldc; j++ {
			if i < g.m && j < g.n {
				continue
			}
			if idx := i*g.ldc + j; idx < len(cTest) && math.Float64bits(cTest[idx]) != math.Float64bits(c0[idx]) {
				return &Violation{prop, "gemm/padding-modified", fmt.Sprintf("%s wrote outside the %dx%d window of C: element [%d,%d] (ldc=%d)", kind, g.m, g.n, i, j, g.ldc)}
			}
		}
	}
	if g.nanC {
		rc.probe("beta_zero_with_nan_in_C", 1)
	}
	// (c) anchor against the definition
	rc.oracle("definition")
	u := 0x1p-53
	if g.single {
		u = 0x1p-24
	}
	for i := 0; i < g.m; i++ {
		for j := 0; j < g.n; j++ {
			var s, abs float64
			for l := 0; l < g.k; l++ {
				p := g.at(g.a, g.lda, g.tA, i, l) * g.at(g.b, g.ldb, g.tB, l, j)
				s += p
				abs += math.Abs(p)
			}
			want := g.alpha*s + g.beta*c0[i*g.ldc+j]
			if g.beta == 0 {
				want = g.alpha * s
			}
			got := cTest[i*g.ldc+j]
			if g.exact {
				if got != want {
					return &Violation{prop, "gemm/definition", fmt.Sprintf("%s %v (small integers, exact): C[%d,%d] = %v, definition gives %v", kind, rc.Instance["shape"], i, j, got, want)}
				}
				continue
			}
			cterm := 0.0
			if g.beta != 0 {
				cterm = math.Abs(g.beta * c0[i*g.ldc+j])
			}
			tol := float64(g.k+3) * u * (math.Abs(g.alpha)*abs + cterm) * 2
			if !(math.Abs(got-want) <= tol) {
				return &Violation{prop, "gemm/definition", fmt.Sprintf("%s %v: C[%d,%d] = %v, definition gives %v (difference %g > bound %g)", kind, rc.Instance["shape"], i, j, got, want, math.Abs(got-want), tol)}
			}
		}
	}
	return nil
}
