package main

import (
	"fmt"
	"math"

	"gonum.org/v1/gonum/optimize"
	"verif/simrt"
)

// stubMethod is a harness optimize.Method that follows the documented Method
// contract but exercises its corners: fewer tasks than offered, NoOperation
// tasks, MethodDone with tasks still in flight, several MajorIterations
// after PostIteration.
type stubConfig struct {
	WantTasks     int // Init returns min(tasks, WantTasks)
	DoneAfter     int // send MethodDone after this many evaluation results (0 = never)
	MajorEvery    int // send a MajorIteration after every MajorEvery-th result
	NoopEvery     int // send a NoOperation task after every NoopEvery-th result (0 = never)
	TrailingMajor int // extra MajorIterations sent after results is closed
	GradToo       bool
}

func drawStub(t *simrt.Tape) stubConfig {
	return stubConfig{
		WantTasks:     1 + t.Choose(simrt.KWorkload, 8),
		DoneAfter:     t.Choose(simrt.KWorkload, 25),
		MajorEvery:    1 + t.Choose(simrt.KWorkload, 4),
		NoopEvery:     t.Choose(simrt.KWorkload, 5),
		TrailingMajor: t.Choose(simrt.KWorkload, 4),
		GradToo:       t.Choose(simrt.KWorkload, 3) == 2,
	}
}

const (
	siteStubSend  = 9001
	siteStubRecv  = 9002
	siteStubRange = 9003
	siteStubClose = 9004
)

type stubMethod struct {
	cfg     stubConfig
	dim     int
	nTasks  int
	hasGrad bool
	state   uint64

	bestF float64
	bestX []float64
	bestG []float64 // gradient at bestX, nil if it was not evaluated there

	evalsSent      int
	evalResults    int
	majorsSent     int
	noopsSent      int
	noopsBack      int
	majorsBack     int
	doneSent       bool
	doneInFlight   int
	trailingMajors int
	sawPost        bool
	afterPost      int
}

func newStub(cfg stubConfig, dim int, seed uint64, hasGrad bool) *stubMethod {
	return &stubMethod{cfg: cfg, dim: dim, state: seed | 1, hasGrad: hasGrad, bestF: math.Inf(1), bestX: make([]float64, dim)}
}

func (m *stubMethod) Init(dim, tasks int) int {
	m.nTasks = tasks
	if m.cfg.WantTasks < tasks {
		m.nTasks = m.cfg.WantTasks
	}
	return m.nTasks
}

func (m *stubMethod) Uses(has optimize.Available) (optimize.Available, error) {
	return optimize.Available{Grad: has.Grad && m.cfg.GradToo}, nil
}

func (m *stubMethod) Status() (optimize.Status, error) { return optimize.MethodConverge, nil }

func (m *stubMethod) next() float64 {
	m.state += 0x9e3779b97f4a7c15
	z := m.state
	z = (z ^ (z >> 30)) * 0xbf58476d1ce4e5b9
	z = (z ^ (z >> 27)) * 0x94d049bb133111eb
	z ^= z >> 31
	return math.Round((float64(z>>11)/(1<<53)*8-4)*32) / 32
}

func (m *stubMethod) sendEval(op *simrt.Chan[optimize.Task], t optimize.Task) {
	for i := range t.X {
		t.X[i] = m.next()
	}
	t.Op = optimize.FuncEvaluation
	if m.hasGrad && m.cfg.GradToo {
		t.Op |= optimize.GradEvaluation
	}
	m.evalsSent++
	op.Send(siteStubSend, t)
}

func (m *stubMethod) note(t optimize.Task) {
	m.evalResults++
	if t.F < m.bestF {
		m.bestF = t.F
		copy(m.bestX, t.X)
		m.bestG = nil
		if t.Op&optimize.GradEvaluation != 0 && t.Gradient != nil {
			m.bestG = append([]float64(nil), t.Gradient...)
		}
	}
}

func (m *stubMethod) sendMajor(op *simrt.Chan[optimize.Task], t optimize.Task) {
	t.F = m.bestF
	copy(t.X, m.bestX)
	// the location of a MajorIteration must be consistent: its gradient is
	// the gradient at X, or absent
	if m.bestG != nil {
		t.Gradient = append(t.Gradient[:0], m.bestG...)
	} else {
		t.Gradient = nil
	}
	t.Op = optimize.MajorIteration
	m.majorsSent++
	op.Send(siteStubSend, t)
}

func (m *stubMethod) Run(operation *simrt.Chan[optimize.Task], result *simrt.Chan[optimize.Task], tasks []optimize.Task) {
	for i, t := range tasks {
		t.ID = i
		m.sendEval(operation, t)
	}
	outstanding := len(tasks)
Loop:
	for {
		t := result.Recv(siteStubRecv)
		outstanding--
		switch {
		case t.Op == optimize.PostIteration:
			outstanding++ // not one of ours
			m.sawPost = true
			break Loop
		case t.Op == optimize.NoOperation:
			m.noopsBack++
		case t.Op == optimize.MajorIteration:
			m.majorsBack++
		default:
			m.note(t)
		}
		if m.doneSent {
			continue // hold the token; PostIteration is on its way
		}
		switch {
		case m.cfg.DoneAfter > 0 && m.evalResults >= m.cfg.DoneAfter:
			t.Op = optimize.MethodDone
			m.doneSent = true
			m.doneInFlight = outstanding
			operation.Send(siteStubSend, t)
		case t.Op != optimize.MajorIteration && t.Op != optimize.NoOperation && m.evalResults%m.cfg.MajorEvery == 0 && !math.IsInf(m.bestF, 1):
			m.sendMajor(operation, t)
			outstanding++
		case m.cfg.NoopEvery > 0 && t.Op != optimize.NoOperation && m.evalResults%m.cfg.NoopEvery == 0:
			t.Op = optimize.NoOperation
			m.noopsSent++
			operation.Send(siteStubSend, t)
			outstanding++
		default:
			m.sendEval(operation, t)
			outstanding++
		}
	}
	var spare optimize.Task
	have := false
	for t := range result.All(siteStubRange) {
		m.afterPost++
		switch {
		case t.Op == optimize.MajorIteration:
			m.majorsBack++
		case t.Op == optimize.NoOperation:
			m.noopsBack++
		default:
			m.note(t)
		}
		spare, have = t, true
	}
	if have && !math.IsInf(m.bestF, 1) {
		for i := 0; i < m.cfg.TrailingMajor; i++ {
			m.trailingMajors++
			// a Location handed to Minimize is not touched again: every
			// trailing MajorIteration gets a Location of its own
			fresh := spare
			fresh.Location = &optimize.Location{X: make([]float64, m.dim)}
			m.sendMajor(operation, fresh)
		}
	}
	operation.Close(siteStubClose)
}

// check evaluates the conservation oracles only the method can see.
func (m *stubMethod) check(prop string, log *evalLog, st optimize.Stats) *Violation {
	if !m.sawPost {
		return &Violation{prop, "minimize/stub/no-post-iteration", "results was closed (or Run returned) without a PostIteration task having been delivered to the method"}
	}
	// every evaluation that was started comes back to the method exactly once
	if m.evalResults != log.nFunc {
		return &Violation{prop, "minimize/stub/evaluation-conservation", fmt.Sprintf("the objective was evaluated %d times but the method received %d evaluation results (sent %d)", log.nFunc, m.evalResults, m.evalsSent)}
	}
	if st.MajorIterations != m.majorsSent {
		return &Violation{prop, "minimize/stub/major-iterations", fmt.Sprintf("the method sent %d MajorIterations, Stats.MajorIterations=%d", m.majorsSent, st.MajorIterations)}
	}
	return nil
}
