package main

import (
	"fmt"
	"math"

	"gonum.org/v1/gonum/diff/fd"
	"gonum.org/v1/gonum/mat"
	"verif/simrt"
)

// S3: diff/fd with Concurrent set (DESIGN.md section 4).

var fdFormulas = []struct {
	name string
	f    fd.Formula
}{{"Forward", fd.Forward}, {"Backward", fd.Backward}, {"Central", fd.Central}, {"Central2nd", fd.Central2nd}, {"Forward2nd", fd.Forward2nd}, {"Backward2nd", fd.Backward2nd},
	// a user formula whose stencil is the origin alone: legal (it passes the
	// package's formula check), useless, and it must still return
	// zero-weight points are legal and change nothing
	{"central with a zero-weight origin", fd.Formula{Stencil: []fd.Point{{Loc: -1, Coeff: -0.5}, {Loc: 0, Coeff: 0}, {Loc: 1, Coeff: 0.5}}, Derivative: 1, Step: 0.25}},
	{"central second difference with a zero-weight point", fd.Formula{Stencil: []fd.Point{{Loc: -1, Coeff: 1}, {Loc: 0, Coeff: -2}, {Loc: 1, Coeff: 1}, {Loc: 2, Coeff: 0}}, Derivative: 2, Step: 0.25}},
	{"origin only (first derivative)", fd.Formula{Stencil: []fd.Point{{Loc: 0, Coeff: 1}}, Derivative: 1, Step: 0.5}},
	{"origin only (second derivative)", fd.Formula{Stencil: []fd.Point{{Loc: 0, Coeff: 1}}, Derivative: 2, Step: 0.5}}}

// fdLog is the callback log of the fd scenario (norace; see callLog).
type fdLog struct {
	dim      int
	xs       []float64
	n        int
	absSum   float64
	inflight int
	maxIn    int
	mutated  bool
	overflow bool
	closed   bool
	late     int
}

//go:norace
func (l *fdLog) close() {
	l.closed = true
	l.late += l.inflight
}

//go:norace
func (l *fdLog) enter(x []float64) {
	if l.closed {
		l.late++
	}
	if (l.n+1)*l.dim <= len(l.xs) {
		for i := 0; i < l.dim; i++ {
			l.xs[l.n*l.dim+i] = x[i]
		}
	} else {
		l.overflow = true
	}
	l.n++
	l.inflight++
	if l.inflight > l.maxIn {
		l.maxIn = l.inflight
	}
}

//go:norace
func (l *fdLog) leave(v float64, same bool) {
	l.inflight--
	l.absSum += math.Abs(v)
	if !same {
		l.mutated = true
	}
}

func (l *fdLog) has(x []float64) bool {
	for k := 0; k < l.n && (k+1)*l.dim <= len(l.xs); k++ {
		same := true
		for i := 0; i < l.dim; i++ {
			if math.Float64bits(l.xs[k*l.dim+i]) != math.Float64bits(x[i]) {
				same = false
				break
			}
		}
		if same {
			return true
		}
	}
	return false
}

type fdInst struct {
	op       int // 0 Derivative 1 Gradient 2 Jacobian 3 Hessian 4 Laplacian 5 CrossLaplacian
	dim      int
	m        int // Jacobian output dimension
	formula  int
	step     float64
	x, y     []float64
	origin   bool
	exact    bool
	scribble bool // f overwrites the slice it was given after using it
	coef     []float64
}

var fdOpNames = []string{"Derivative", "Gradient", "Jacobian", "Hessian", "Laplacian", "CrossLaplacian"}

func drawFD(t *simrt.Tape) *fdInst {
	in := &fdInst{}
	in.op = t.Choose(simrt.KWorkload, 6)
	in.dim = 1 + t.Choose(simrt.KWorkload, 5+scale)
	if in.op == 0 {
		in.dim = 1
	}
	if in.op == 3 && in.dim > 4 {
		in.dim = 4
	}
	in.m = 1 + t.Choose(simrt.KWorkload, 4)
	switch in.op {
	case 0:
		in.formula = t.Choose(simrt.KWorkload, 6)
	case 1, 2, 3, 5:
		in.formula = t.Choose(simrt.KWorkload, 3) // first-derivative formulas (documented requirement)
		switch t.Choose(simrt.KWorkload, 12) {
		case 11:
			in.formula = 8
		case 10:
			in.formula = 6
		}
	default:
		in.formula = 3 + t.Choose(simrt.KWorkload, 3) // second-derivative formulas
		switch t.Choose(simrt.KWorkload, 12) {
		case 11:
			in.formula = 9
		case 10:
			in.formula = 7
		}
	}
	in.step = math.Ldexp(1, -1-t.Choose(simrt.KWorkload, 4)) // 1/2 .. 1/16
	in.exact = t.Choose(simrt.KWorkload, 3) != 2
	if !in.exact {
		// a step whose reciprocal is not exact
		in.step = []float64{0.1, 0.3, 1e-3, 0.7, 1.0 / 3, 0.06}[t.Choose(simrt.KWorkload, 6)]
	}
	in.origin = t.Choose(simrt.KWorkload, 2) == 1
	// Only Gradient evaluates f exclusively on private copies in its serial
	// path too (the others hand the caller's own x to f for the origin), so
	// only there is "the serial answer" defined for a callback that uses its
	// argument as scratch space.
	in.scribble = t.Choose(simrt.KWorkload, 2) == 1
	in.x = make([]float64, in.dim)
	in.y = make([]float64, in.dim)
	for i := range in.x {
		in.x[i] = float64(t.Choose(simrt.KValue, 17)-8) / 4
		in.y[i] = float64(t.Choose(simrt.KValue, 17)-8) / 4
	}
	in.coef = make([]float64, 5)
	for i := range in.coef {
		in.coef[i] = float64(t.Choose(simrt.KValue, 7) - 3)
	}
	return in
}

// scalar is the test function: an integer polynomial of degree <= 4 in the
// coordinates (exact in binary floating point on dyadic arguments), or a
// smooth transcendental one.
func (in *fdInst) scalar(x []float64) float64 {
	var s float64
	for i, v := range x {
		w := float64(i + 1)
		if in.exact {
			c := in.coef
			s += w * ((((c[4]*v+c[3])*v+c[2])*v+c[1])*v + c[0])
		} else {
			s += w * (math.Sin(v) + 0.25*v*v*v)
		}
	}
	if len(x) > 1 {
		if in.exact {
			s += x[0] * x[len(x)-1] * in.coef[1]
		} else {
			s += math.Cos(x[0] * x[len(x)-1])
		}
	}
	return s
}

func init() {
	register(&Scenario{Name: "fd", Props: []string{"C09"}, Run: runFD})
}

func runFD(t *simrt.Tape, rc *RunCtx) *Violation {
	const prop = "C09"
	in := drawFD(t)
	name := fdOpNames[in.op]
	form := fdFormulas[in.formula]
	rc.Instance["op"] = name
	rc.Instance["dim"] = in.dim
	rc.Instance["formula"] = form.name
	rc.Instance["step"] = in.step
	rc.Instance["x"] = fmt.Sprint(in.x)
	rc.Instance["origin_known"] = in.origin
	rc.Instance["exact_arithmetic"] = in.exact
	rc.Instance["callback_scribbles_on_argument"] = in.scribble
	rc.declare("second_client_with_the_same_formula", "two_term_gradient_concurrent_inexact_arithmetic", "concurrent_path_taken", "evaluations_overlapped", "origin_known", "gomaxprocs_1_serial_fallback")

	argDim := in.dim
	if in.op == 5 {
		argDim = 2 * in.dim
	}
	newLog := func() *fdLog { return &fdLog{dim: argDim, xs: make([]float64, argDim*4096)} }
	// the computation, parameterised by Concurrent and by the callback log
	compute := func(concurrent bool, log *fdLog, inSim bool) []float64 {
		wrapVec := func(x []float64) float64 {
			log.enter(x)
			keep := append([]float64(nil), x...)
			if inSim {
				perturb()
			}
			v := in.scalar(x)
			log.leave(v, sameBits(keep, x))
			if in.scribble {
				// a callback that uses its argument as scratch space: the
				// evaluation points of later calls must not depend on it
				for i := range x {
					x[i] = x[i]*x[i] + 1e3
				}
			}
			return v
		}
		set := &fd.Settings{Formula: form.f, Step: in.step, Concurrent: concurrent}
		if in.origin {
			set.OriginKnown = true
		}
		switch in.op {
		case 0:
			f1 := func(x float64) float64 { return wrapVec([]float64{x}) }
			if in.origin {
				set.OriginValue = in.scalar(in.x)
			}
			return []float64{fd.Derivative(f1, in.x[0], set)}
		case 1:
			if in.origin {
				set.OriginValue = in.scalar(in.x)
			}
			// "If dst is nil, a new slice will be allocated and returned"
			var dst []float64
			if in.dim%2 == 1 {
				dst = make([]float64, in.dim)
			}
			return fd.Gradient(dst, wrapVec, append([]float64(nil), in.x...), set)
		case 2:
			fj := func(y, x []float64) {
				log.enter(x)
				keep := append([]float64(nil), x...)
				if inSim {
					perturb()
				}
				var tot float64
				for k := range y {
					xs := append([]float64(nil), x...)
					xs[k%len(xs)] += float64(k)
					y[k] = in.scalar(xs) + float64(k)*x[0]
					tot += math.Abs(y[k])
				}
				log.leave(tot, sameBits(keep, x))
			}
			js := &fd.JacobianSettings{Formula: form.f, Step: in.step, Concurrent: concurrent}
			if in.origin {
				ov := make([]float64, in.m)
				quiet := &fdLog{dim: argDim, xs: make([]float64, argDim*4)}
				saved := log
				log = quiet
				fj(ov, append([]float64(nil), in.x...))
				log = saved
				js.OriginValue = ov
			}
			dst := mat.NewDense(in.m, in.dim, nil)
			fd.Jacobian(dst, fj, append([]float64(nil), in.x...), js)
			return append([]float64(nil), dst.RawMatrix().Data...)
		case 3:
			if in.origin {
				set.OriginValue = in.scalar(in.x)
			}
			// "If the dst matrix is empty it will be resized to the correct dimensions"
			dst := &mat.SymDense{}
			if in.dim%2 == 1 {
				dst = mat.NewSymDense(in.dim, nil)
			}
			fd.Hessian(dst, wrapVec, append([]float64(nil), in.x...), set)
			out := make([]float64, 0, in.dim*in.dim)
			for i := 0; i < in.dim; i++ {
				for j := 0; j < in.dim; j++ {
					out = append(out, dst.At(i, j))
				}
			}
			return out
		case 4:
			if in.origin {
				set.OriginValue = in.scalar(in.x)
			}
			return []float64{fd.Laplacian(wrapVec, append([]float64(nil), in.x...), set)}
		default:
			f2 := func(x, y []float64) float64 {
				return wrapVec(append(append([]float64(nil), x...), y...))
			}
			if in.origin {
				set.OriginValue = in.scalar(append(append([]float64(nil), in.x...), in.y...))
			}
			return []float64{fd.CrossLaplacian(f2, append([]float64(nil), in.x...), append([]float64(nil), in.y...), set)}
		}
	}
	// serial reference (outside any simulation: no concurrency constructs on this path)
	sLog := newLog()
	var serial []float64
	if _, v := rc.Sim(prop, simrt.ReplayTape(nil), baselineConfig(), func() { serial = compute(false, sLog, false) }); v != nil {
		v.Msg = "[serial reference] " + v.Msg
		return v
	}
	cfg := drawConfig(t, 30*sLog.n+60)
	rc.Instance["policy"] = cfg.Policy.String()
	rc.Instance["gomaxprocs"] = cfg.GOMAXPROCS
	cLog := newLog()
	var got []float64
	// In half of the runs a second client differentiates another function at
	// another point at the same time, with the same Formula value or with nil
	// settings (the package's default formulas): "independent operations on
	// disjoint data may be issued from many goroutines at once".
	twoClients := t.Choose(simrt.KWorkload, 2) == 1
	otherNil := t.Choose(simrt.KWorkload, 2) == 1
	var otherGot, otherWant []float64
	other := func() []float64 {
		g := func(x []float64) float64 { return 3*x[0]*x[0] - x[0]*x[1] + 0.5*x[1] }
		var set *fd.Settings
		if !otherNil && form.f.Derivative == 1 {
			set = &fd.Settings{Formula: form.f}
		}
		return fd.Gradient(nil, g, []float64{0.5, -1.25}, set)
	}
	if twoClients {
		rc.probe("second_client_with_the_same_formula", 1)
		otherWant = other()
	}
	out, v := rc.Sim(prop, t, cfg, func() {
		if twoClients {
			var wg simrt.WaitGroup
			wg.Add(1)
			simrt.Go(9400, func() { defer wg.Done(); otherGot = other() })
			defer wg.Wait()
		}
		got = compute(true, cLog, true)
		cLog.close()
	})
	if v != nil {
		return v
	}
	if twoClients {
		rc.oracle("second-client-answer")
		for i := range otherWant {
			if len(otherGot) != len(otherWant) || math.Float64bits(otherGot[i]) != math.Float64bits(otherWant[i]) {
				return &Violation{prop, "fd/second-client-differs", fmt.Sprintf("a second client's fd.Gradient (nil settings: %v) gives %v while %s (%s) runs in another goroutine, %v alone", otherNil, otherGot, name, form.name, otherWant)}
			}
		}
	}
	rc.oracle("no-evaluation-after-return")
	if cLog.late > 0 {
		return &Violation{prop, "fd/evaluation-after-return", fmt.Sprintf("%s (%s, Concurrent): %d evaluation(s) of f were running or started after the call had returned", name, form.name, cLog.late)}
	}
	if out.Goroutines > 1 {
		rc.probe("concurrent_path_taken", 1)
	} else if cfg.GOMAXPROCS == 1 {
		rc.probe("gomaxprocs_1_serial_fallback", 1)
	}
	if cLog.maxIn > 1 {
		rc.probe("evaluations_overlapped", 1)
	}
	if in.origin {
		rc.probe("origin_known", 1)
	}
	if cLog.overflow || sLog.overflow {
		return nil
	}
	// (c) each worker owns the x it hands to f
	rc.oracle("argument-stable")
	if cLog.mutated {
		return &Violation{prop, "fd/argument-mutated", fmt.Sprintf("%s (%s, Concurrent): the slice passed to f changed while f was suspended: workers share an evaluation buffer", name, form.name)}
	}
	rc.oracle("admissible-points")
	origin := in.x
	if in.op == 5 {
		origin = append(append([]float64(nil), in.x...), in.y...)
	}
	for k := 0; k < cLog.n; k++ {
		pt := cLog.xs[k*argDim : (k+1)*argDim]
		if !sLog.has(pt) && !sameBits(pt, origin) {
			return &Violation{prop, "fd/foreign-evaluation-point", fmt.Sprintf("%s (%s, Concurrent): f was evaluated at %v, which is neither the origin nor a point the serial evaluation uses", name, form.name, pt)}
		}
	}
	// (a) "call the user function the documented number of times": as many
	// calls as the serial evaluation makes, none of them at the origin when
	// Settings says that the value there is known
	rc.oracle("call-count")
	if cLog.n != sLog.n {
		return &Violation{prop, "fd/call-count", fmt.Sprintf("%s (%s, origin known: %v): f was called %d times with Concurrent, %d times serially", name, form.name, in.origin, cLog.n, sLog.n)}
	}
	usesOrigin, pos, neg := false, false, false
	for _, p := range form.f.Stencil {
		usesOrigin = usesOrigin || p.Loc == 0
		pos = pos || p.Loc > 0
		neg = neg || p.Loc < 0
	}
	if pos && neg {
		// x+h-h: a second-order routine reaches the origin through two
		// offsets as well; that call is not the origin term
		usesOrigin = false
	}
	// (a stencil without the origin can still reach it: x+h-h in a second
	// order formula; those calls are not the origin term)
	if in.origin && usesOrigin {
		for _, l := range []*fdLog{sLog, cLog} {
			if l.has(origin) {
				return &Violation{prop, "fd/origin-evaluated-although-known", fmt.Sprintf("%s (%s): Settings.OriginKnown is set and f was still called at the origin %v (Concurrent: %v)", name, form.name, origin, l == cLog)}
			}
		}
	}
	// (b) the serial answer
	rc.oracle("serial-answer")
	if len(got) != len(serial) {
		return &Violation{prop, "fd/serial-answer", fmt.Sprintf("%s: result has %d entries, serial %d", name, len(got), len(serial))}
	}
	order := form.f.Derivative
	if in.op == 3 || in.op == 5 {
		order = 2
	}
	var maxCoef float64 = 1
	for _, p := range form.f.Stencil {
		if a := math.Abs(p.Coeff); a > maxCoef {
			maxCoef = a
		}
	}
	tol := float64(cLog.n+sLog.n+6) * 0x1p-53 * (cLog.absSum + sLog.absSum + 1) * maxCoef * maxCoef / math.Pow(in.step, float64(order)) * 2
	// Gradient with a two-point stencil sums two terms per component: the
	// order of a two-term sum is immaterial, so the reduction order is fixed
	// and the answer is owed bit for bit, whatever the step
	twoTermGradient := in.op == 1 && len(form.f.Stencil) == 2
	if twoTermGradient && !in.exact && out.Goroutines > 1 {
		rc.probe("two_term_gradient_concurrent_inexact_arithmetic", 1)
	}
	for i := range got {
		if twoTermGradient && !in.exact && math.Float64bits(got[i]) != math.Float64bits(serial[i]) && !(got[i] == 0 && serial[i] == 0) {
			return &Violation{prop, "fd/serial-answer-bits/two-term-gradient", fmt.Sprintf("%s (%s, step %v): entry %d is %v with Concurrent, %v serially; each component is a two-term sum, whose order cannot matter", name, form.name, in.step, i, got[i], serial[i])}
		}
		if in.exact {
			if math.Float64bits(got[i]) != math.Float64bits(serial[i]) && !(got[i] == 0 && serial[i] == 0) {
				return &Violation{prop, "fd/serial-answer-bits", fmt.Sprintf("%s (%s, step %v, exact dyadic arithmetic): entry %d is %v with Concurrent, %v serially", name, form.name, in.step, i, got[i], serial[i])}
			}
		} else if !(math.Abs(got[i]-serial[i]) <= tol) {
			return &Violation{prop, "fd/serial-answer-rounding", fmt.Sprintf("%s (%s, step %v): entry %d is %v with Concurrent, %v serially: difference %g > rounding bound %g", name, form.name, in.step, i, got[i], serial[i], math.Abs(got[i]-serial[i]), tol)}
		}
	}
	return nil
}
