package main

import (
	"math"
	"time"

	"verif/simrt"
)

// callLog records user-callback invocations made by simulated goroutines.
// Every method is uninstrumented (go:norace) and allocation-free so that the
// harness's own bookkeeping neither shows up as a race nor adds
// happens-before edges that could hide one in the code under test.
type callLog struct {
	args     []float64
	gs       []int32
	n        int
	inflight int
	maxIn    int
	overflow bool
	closed   bool // the API call under test has returned
	late     int  // callbacks entered or still running after that
}

// close marks the return of the API call; callbacks seen afterwards are
// evaluations that outlived the call.
//
//go:norace
func (l *callLog) close() {
	l.closed = true
	l.late += l.inflight
}

func newCallLog(capacity int) *callLog {
	return &callLog{args: make([]float64, capacity), gs: make([]int32, capacity)}
}

//go:norace
func (l *callLog) enter(x float64) {
	if l.closed {
		l.late++
	}
	if l.n < len(l.args) {
		l.args[l.n] = x
		l.gs[l.n] = int32(simrt.GID())
	} else {
		l.overflow = true
	}
	l.n++
	l.inflight++
	if l.inflight > l.maxIn {
		l.maxIn = l.inflight
	}
}

//go:norace
func (l *callLog) leave() { l.inflight-- }

//go:norace
func (l *callLog) count() int { return l.n }

//go:norace
func (l *callLog) reset() {
	l.n, l.inflight, l.maxIn, l.overflow, l.closed, l.late = 0, 0, 0, false, false, 0
}

// sorted returns the recorded arguments in ascending order (bitwise order for
// equal values; NaNs last).
func (l *callLog) sorted() []float64 {
	n := l.n
	if n > len(l.args) {
		n = len(l.args)
	}
	out := append([]float64(nil), l.args[:n]...)
	sortFloats(out)
	return out
}

func sortFloats(a []float64) {
	// insertion sort is fine for the sizes used here, and is total on NaN
	for i := 1; i < len(a); i++ {
		for j := i; j > 0 && lessF(a[j], a[j-1]); j-- {
			a[j], a[j-1] = a[j-1], a[j]
		}
	}
}

func lessF(a, b float64) bool {
	if math.IsNaN(a) || math.IsNaN(b) {
		return !math.IsNaN(a) && math.IsNaN(b)
	}
	if a != b {
		return a < b
	}
	return math.Float64bits(a) < math.Float64bits(b)
}

// perturb is the "randomized yield in a user callback": nothing, a yield, a
// short sleep or a long stall, chosen by the tape. It is what makes
// evaluations genuinely overlap, and the only thing that moves the clock.
func perturb() {
	switch simrt.Choose(simrt.KCost, 8) {
	case 0, 1, 2:
	case 3, 4, 5:
		simrt.Yield()
	case 6:
		simrt.Sleep(time.Duration(1+simrt.Choose(simrt.KCost, 1000)) * time.Microsecond)
	case 7:
		simrt.Sleep(time.Duration(1+simrt.Choose(simrt.KCost, 600)) * time.Second)
	}
}

// intVals holds small shared integer cells written from callbacks.
type cells struct{ v [16]int64 }

//go:norace
func (c *cells) add(i int, d int64) int64 { c.v[i] += d; return c.v[i] }

//go:norace
func (c *cells) get(i int) int64 { return c.v[i] }

//go:norace
func (c *cells) set(i int, x int64) { c.v[i] = x }

//go:norace
func (c *cells) max(i int, x int64) {
	if x > c.v[i] {
		c.v[i] = x
	}
}
