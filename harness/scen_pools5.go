package main

import (
	"gonum.org/v1/gonum/mat"
)

// Fifth part of the S4 catalogue: operands that are none of mat's own types.
// A user-defined mat.Matrix has no Raw* accessor, so the receiver-style
// operations take their general paths (element-wise At, or a copy into a
// pooled workspace) instead of the BLAS fast paths every other entry uses.

type opaqueMatrix struct{ m mat.Matrix }

func (o opaqueMatrix) Dims() (int, int)    { return o.m.Dims() }
func (o opaqueMatrix) At(i, j int) float64 { return o.m.At(i, j) }
func (o opaqueMatrix) T() mat.Matrix       { return mat.Transpose{Matrix: o} }

func init() {
	poolOps = append(poolOps,
		poolOp{"Dense.Product(with user-defined factors) then Pow one size up", func(r *opRand, n int) []float64 {
			a, b, c, d := r.dense(n, n), r.dense(n, n), r.dense(n, n), r.dense(n, 2)
			var p1, p2, p3, pw mat.Dense
			p1.Product(a, opaqueMatrix{b}, c)
			p2.Product(opaqueMatrix{a}, b, opaqueMatrix{c}, d)
			p3.Product(a, opaqueMatrix{b}.T(), c, opaqueMatrix{d})
			// a workspace request a little larger than the ones above: it
			// is served from the same size class of the pool
			pw.Pow(r.dense(n+1, n+1), 2)
			return flat(&p1, &p2, &p3, &pw)
		}},
		poolOp{"Dense.Mul/Add/MulElem/Apply/Kronecker/Inverse/Solve(user-defined operands)", func(r *opRand, n int) []float64 {
			a, b := r.dense(n, n), r.dense(n, n)
			for i := 0; i < n; i++ {
				a.Set(i, i, a.At(i, i)+float64(n)+2) // well conditioned
			}
			oa, ob := opaqueMatrix{a}, opaqueMatrix{b}
			var m1, m2, m3, m4, m5, m6, m7, m8 mat.Dense
			m1.Mul(oa, b)
			m2.Mul(a, ob.T())
			m3.Add(oa, ob)
			m4.MulElem(oa, b)
			m5.Apply(func(i, j int, v float64) float64 { return v + float64(i-j) }, oa)
			m6.Kronecker(oa, r.dense(2, 2))
			_ = m7.Inverse(oa)
			_ = m8.Solve(oa, ob)
			// receivers that alias an operand take an isolated workspace
			a.Mul(a, ob)
			return flat(&m1, &m2, &m3, &m4, &m5, &m6, &m7, &m8, a)
		}},
	)
}
