package main

import (
	"fmt"
	"hash"
	"hash/fnv"
	"math"
	"math/rand/v2"
	"strings"
	"time"

	"github.com/anishathalye/porcupine"
	"gonum.org/v1/gonum/mat"
	"gonum.org/v1/gonum/stat/card"
	"gonum.org/v1/gonum/stat/distmat"
	"gonum.org/v1/gonum/stat/distmv"
	"gonum.org/v1/gonum/unit"
	"verif/simrt"
)

// S5: unit.NewDimension / SymbolExists / Dimension.String from several
// goroutines, checked for linearizability against a sequential registry.
// S6: a shared *distmat.Wishart with lazily built state.

type regOp struct {
	kind   int // 0 NewDimension, 1 SymbolExists, 2 Dimension.String, 3 Dimensions.String, 4 Unit formatted with %v
	sym    int // symbol index (kinds 0, 1) or position of the dimension (kind 2)
	client int
}

type regOut struct {
	panicked bool
	dim      int // relative to the sentinel
	exists   bool
	str      int // symbol index, -1 unknown
}

// regEvent is one recorded operation (norace bookkeeping, fixed arrays).
type regHistory struct {
	ops  [64]regOp
	outs [64]regOut
	call [64]int64
	ret  [64]int64
	n    int
	seq  int64
}

//go:norace
func (h *regHistory) invoke(op regOp) int {
	i := h.n
	h.n++
	h.seq++
	h.ops[i] = op
	h.call[i] = h.seq
	return i
}

//go:norace
func (h *regHistory) done(i int, out regOut) {
	h.seq++
	h.outs[i] = out
	h.ret[i] = h.seq
}

var regRunCounter int

// registry model for porcupine: the state is the registration order of the
// run's symbols, as a string of symbol indices.
var regModel = porcupine.Model{
	Init: func() interface{} { return "" },
	Step: func(state, input, output interface{}) (bool, interface{}) {
		st := state.(string)
		op := input.(regOp)
		out := output.(regOut)
		idx := -1
		for i := 0; i < len(st); i++ {
			if int(st[i]-'0') == op.sym {
				idx = i
			}
		}
		switch op.kind {
		case 0:
			if idx >= 0 {
				return out.panicked, st
			}
			if out.panicked {
				return false, st
			}
			return out.dim == len(st)+1, st + string(rune('0'+op.sym))
		case 1:
			return out.exists == (idx >= 0), st
		default:
			// String of the dimension at relative position op.sym (1-based)
			if op.sym-1 < len(st) {
				return out.str == int(st[op.sym-1]-'0'), st
			}
			return out.panicked, st
		}
	},
	Equal: func(a, b interface{}) bool { return a.(string) == b.(string) },
	DescribeOperation: func(input, output interface{}) string {
		return fmt.Sprintf("%+v -> %+v", input, output)
	},
}

func init() {
	register(&Scenario{Name: "registry", Props: []string{"C09"}, Run: runRegistry})
	register(&Scenario{Name: "wishart", Props: []string{"C09"}, Run: runWishart})
}

func runRegistry(t *simrt.Tape, rc *RunCtx) *Violation {
	const prop = "C09"
	rc.declare("duplicate_registration_raced", "history_checked")
	regRunCounter++
	tag := fmt.Sprintf("vsym%d_%d", regRunCounter, time.Now().Nanosecond()%1) // unique per execution in this process
	nclients := 2 + t.Choose(simrt.KWorkload, 3)
	nsyms := 1 + t.Choose(simrt.KWorkload, 4)
	symName := func(i int) string { return fmt.Sprintf("%s_%d", tag, i) }
	plans := make([][]regOp, nclients)
	total := 0
	for c := range plans {
		n := 1 + t.Choose(simrt.KWorkload, 4)
		for i := 0; i < n && total < 12; i++ {
			op := regOp{client: c}
			switch t.Choose(simrt.KWorkload, 6) {
			case 0, 1:
				op.kind, op.sym = 0, t.Choose(simrt.KWorkload, nsyms)
			case 2:
				op.kind, op.sym = 1, t.Choose(simrt.KWorkload, nsyms)
			case 3:
				op.kind, op.sym = 2, 1+t.Choose(simrt.KWorkload, nsyms)
			case 4:
				op.kind, op.sym = 3, 1+t.Choose(simrt.KWorkload, nsyms)
			default:
				op.kind, op.sym = 4, 1+t.Choose(simrt.KWorkload, nsyms)
			}
			plans[c] = append(plans[c], op)
			total++
		}
	}
	rc.Instance["clients"] = nclients
	rc.Instance["symbols"] = nsyms
	rc.Instance["ops"] = fmt.Sprint(plans)
	cfg := drawConfig(t, 80)
	rc.Instance["policy"] = cfg.Policy.String()
	hist := &regHistory{}
	var base unit.Dimension
	doOp := func(op regOp) {
		i := hist.invoke(op)
		out := regOut{str: -1}
		func() {
			defer func() {
				if r := recover(); r != nil {
					out.panicked = true
				}
			}()
			switch op.kind {
			case 0:
				d := unit.NewDimension(symName(op.sym))
				out.dim = int(d) - int(base)
			case 1:
				out.exists = unit.SymbolExists(symName(op.sym))
			case 2:
				s := (base + unit.Dimension(op.sym)).String()
				for k := 0; k < nsyms; k++ {
					if s == symName(k) {
						out.str = k
					}
				}
				if out.str == -1 {
					out.str = -2 // some other symbol
				}
			case 3, 4:
				// compound dimensions. Go's map iteration order is not under
				// the simulator's control, and Dimensions.String ranges over a
				// map before sorting: to keep one tape one execution, kind 3
				// uses a single atom (which may be unregistered and panic),
				// kind 4 two atoms that are both certainly registered (the
				// run's sentinel and a built-in one) plus the atom under test
				// only when a String call has shown it to be registered.
				var s string
				if op.kind == 3 {
					s = unit.Dimensions{base + unit.Dimension(op.sym): 1}.String()
					if strings.Contains(s, "PANIC=") {
						// Dimensions.String prints through fmt, which recovers
						// the "illegal dimension" panic of Dimension.String
						out.panicked = true
						break
					}
					out.str = -2
					for k := 0; k < nsyms; k++ {
						if s == symName(k) {
							out.str = k
						}
					}
					break
				}
				s = fmt.Sprintf("%v", unit.New(1, unit.Dimensions{base: 1, unit.LengthDim: 2}))
				if s != "1 m^2 "+tag+"_sentinel" && s != "1 "+tag+"_sentinel m^2" {
					panic("unexpected format " + s)
				}
				// then behave like kind 2 for the model
				s = (base + unit.Dimension(op.sym)).String()
				out.str = -2
				for k := 0; k < nsyms; k++ {
					if s == symName(k) {
						out.str = k
					}
				}
			}
		}()
		hist.done(i, out)
	}
	_, v := rc.Sim(prop, t, cfg, func() {
		base = unit.NewDimension(tag + "_sentinel")
		var wg simrt.WaitGroup
		for c := 1; c < nclients; c++ {
			c := c
			wg.Add(1)
			simrt.Go(9200, func() {
				defer wg.Done()
				for _, op := range plans[c] {
					doOp(op)
				}
			})
		}
		for _, op := range plans[0] {
			doOp(op)
		}
		wg.Wait()
	})
	if v != nil {
		return v
	}
	var ops []porcupine.Operation
	for i := 0; i < hist.n; i++ {
		ops = append(ops, porcupine.Operation{ClientId: hist.ops[i].client, Input: hist.ops[i], Call: hist.call[i], Output: hist.outs[i], Return: hist.ret[i]})
	}
	rc.oracle("linearizable")
	res := porcupine.CheckOperationsTimeout(regModel, ops, 30*time.Second)
	switch res {
	case porcupine.Unknown:
		rc.probe("porcupine_unknown", 1)
	case porcupine.Illegal:
		desc := ""
		for i := 0; i < hist.n; i++ {
			desc += fmt.Sprintf("\n  client %d [%d,%d] %+v -> %+v", hist.ops[i].client, hist.call[i], hist.ret[i], hist.ops[i], hist.outs[i])
		}
		return &Violation{prop, "registry/not-linearizable", "the history of unit.NewDimension / SymbolExists / Dimension.String calls has no sequential explanation:" + desc}
	default:
		rc.probe("history_checked", 1)
	}
	dups := 0
	for i := 0; i < hist.n; i++ {
		if hist.ops[i].kind == 0 && hist.outs[i].panicked {
			dups++
		}
	}
	rc.probe("duplicate_registration_raced", dups)
	return nil
}

// four harness hash types for card.RegisterHash
type vhashA struct{ hash.Hash64 }
type vhashB struct{ hash.Hash64 }

// yieldHash64 is FNV-1a behind a user type that yields in Write ("randomized
// yields in user callbacks"): two sketches that shared one instance of it
// would hash the concatenation of each other's items.
type yieldHash64 struct{ hash.Hash64 }

func (y yieldHash64) Write(p []byte) (int, error) {
	simrt.Yield()
	n, err := y.Hash64.Write(p)
	simrt.Yield()
	return n, err
}

func newYieldHash64() hash.Hash64 { return yieldHash64{fnv.New64a()} }

// constSource is a stateless rand.Source: safe to share between goroutines,
// and every draw from a distribution that uses it is the same value, so that
// samples drawn concurrently can be compared bit for bit with a serial one.
type constSource uint64

func (c constSource) Uint64() uint64 { return uint64(c) }

// boundedSource is constSource with a call budget (rejection samplers may
// never accept under a constant source).
type boundedSource struct {
	v     uint64
	calls *int
}

func (b boundedSource) Uint64() uint64 {
	*b.calls++
	if *b.calls > 20000 {
		panic("constant source rejected for ever")
	}
	return b.v
}

// wishartConstFor finds a constant under which the Wishart sampler of the
// given order and degrees of freedom terminates (0 if none of the candidates does).
func wishartConstFor(v *mat.SymDense, nu float64) uint64 {
	for _, cand := range []uint64{0x9e3779b97f4a7c15, 0x3c6ef372fe94f82a, 0xdaa66d2c7ddf743f, 0x78dde6e5fd29f054, 0x1715609d7b7475fd, 0xb54cda56f8f7f3a6} {
		ok := func() (ok bool) {
			defer func() {
				if recover() != nil {
					ok = false
				}
			}()
			calls := 0
			w, good := distmat.NewWishart(v, nu, boundedSource{cand, &calls})
			if !good {
				return false
			}
			var c mat.Cholesky
			w.RandCholTo(&c)
			return true
		}()
		if ok {
			return cand
		}
	}
	return 0
}

// sharedMV is a multivariate distribution whose methods below are read-only
// on the unchanged tree (distmv has no lazily built state): one value may be
// evaluated and, with a stateless source, sampled from several goroutines.
type sharedMV interface {
	Rand([]float64) []float64
	LogProb([]float64) float64
	CovarianceMatrix(*mat.SymDense)
	Mean([]float64) []float64
}

// mvConstFor finds a constant source under which mk's sampler terminates.
func mvConstFor(mk func(src rand.Source) (sharedMV, bool)) uint64 {
	for _, cand := range []uint64{0x9e3779b97f4a7c15, 0x3c6ef372fe94f82a, 0xdaa66d2c7ddf743f, 0x78dde6e5fd29f054, 0x1715609d7b7475fd, 0xb54cda56f8f7f3a6} {
		ok := func() (ok bool) {
			defer func() {
				if recover() != nil {
					ok = false
				}
			}()
			calls := 0
			d, good := mk(boundedSource{cand, &calls})
			if !good {
				return false
			}
			for _, x := range d.Rand(nil) {
				if math.IsNaN(x) || math.IsInf(x, 0) {
					return false
				}
			}
			return true
		}()
		if ok {
			return cand
		}
	}
	return 0
}

// mvObs is what one client observes of a shared multivariate distribution.
type mvObs struct {
	rand, rand2, mean []float64
	lp                float64
	cov               mat.SymDense
}

func observeMV(d sharedMV, x []float64, sampleFirst bool) (o mvObs) {
	if sampleFirst {
		o.rand = d.Rand(nil)
	}
	o.lp = d.LogProb(x)
	d.CovarianceMatrix(&o.cov)
	o.mean = d.Mean(nil)
	if !sampleFirst {
		o.rand = d.Rand(nil)
	}
	o.rand2 = d.Rand(nil)
	return o
}

func (o *mvObs) diff(ref *mvObs) string {
	cmp := func(what string, a, b []float64) string {
		if len(a) != len(b) {
			return fmt.Sprintf("%s has %d elements, serially %d", what, len(a), len(b))
		}
		for i := range a {
			if math.Float64bits(a[i]) != math.Float64bits(b[i]) {
				return fmt.Sprintf("%s[%d] = %v, serially %v", what, i, a[i], b[i])
			}
		}
		return ""
	}
	if d := cmp("Rand", o.rand, ref.rand); d != "" {
		return d
	}
	if d := cmp("second Rand", o.rand2, ref.rand2); d != "" {
		return d
	}
	if d := cmp("Mean", o.mean, ref.mean); d != "" {
		return d
	}
	if math.Float64bits(o.lp) != math.Float64bits(ref.lp) {
		return fmt.Sprintf("LogProb = %v, serially %v", o.lp, ref.lp)
	}
	n := ref.cov.SymmetricDim()
	if o.cov.SymmetricDim() != n {
		return fmt.Sprintf("CovarianceMatrix has order %d, serially %d", o.cov.SymmetricDim(), n)
	}
	for i := 0; i < n; i++ {
		for j := i; j < n; j++ {
			if math.Float64bits(o.cov.At(i, j)) != math.Float64bits(ref.cov.At(i, j)) {
				return fmt.Sprintf("CovarianceMatrix[%d,%d] = %v, serially %v", i, j, o.cov.At(i, j), ref.cov.At(i, j))
			}
		}
	}
	return ""
}

func runWishart(t *simrt.Tape, rc *RunCtx) *Violation {
	const prop = "C09"
	rc.declare("lazy_state_built_under_contention", "register_hash_concurrent", "shared_sampler", "shared_distmv")
	n := 1 + t.Choose(simrt.KWorkload, 5)
	r := &opRand{s: uint64(t.Choose(simrt.KValue, 1<<30))}
	v := r.spd(n)
	nu := float64(n) + 1 + float64(t.Choose(simrt.KValue, 5))
	nclients := 2 + t.Choose(simrt.KWorkload, 3)
	xs := make([]*mat.SymDense, nclients)
	for i := range xs {
		xs[i] = r.spd(n)
	}
	rc.Instance["dim"] = n
	rc.Instance["clients"] = nclients
	rc.Instance["nu"] = nu
	// serial reference on its own Wishart
	ref, ok := distmat.NewWishart(v, nu, nil)
	if !ok {
		return nil
	}
	var refMean mat.SymDense
	ref.MeanSymTo(&refMean)
	refLP := make([]float64, nclients)
	for i := range xs {
		refLP[i] = ref.LogProbSym(xs[i])
	}
	shared, _ := distmat.NewWishart(v, nu, nil)
	// sampling from a shared Wishart: a stateless source makes every sample
	// the same matrix
	var sampler *distmat.Wishart
	var refSample mat.SymDense
	var refChol mat.Cholesky
	if k := wishartConstFor(v, nu); k != 0 {
		one, _ := distmat.NewWishart(v, nu, constSource(k))
		one.RandSymTo(&refSample)
		one.RandCholTo(&refChol)
		sampler, _ = distmat.NewWishart(v, nu, constSource(k))
		rc.probe("shared_sampler", 1)
	}
	// shared distmv values with a stateless source: Normal and StudentsT
	// (nu > 2 so that the covariance exists)
	mu := r.slice(n)
	pts := make([][]float64, nclients)
	for i := range pts {
		pts[i] = r.slice(n)
	}
	mvNames := []string{"distmv.Normal", "distmv.StudentsT"}
	mvMake := []func(src rand.Source) (sharedMV, bool){
		func(src rand.Source) (sharedMV, bool) { return distmv.NewNormal(mu, v, src) },
		func(src rand.Source) (sharedMV, bool) { return distmv.NewStudentsT(mu, v, nu+2, src) },
	}
	mvShared := make([]sharedMV, len(mvMake))
	mvRef := make([][2][]mvObs, len(mvMake)) // [kind][sampleFirst][client]
	for k, mk := range mvMake {
		c := mvConstFor(mk)
		if c == 0 {
			continue
		}
		for sf := 0; sf < 2; sf++ {
			mvRef[k][sf] = make([]mvObs, nclients)
			for i := 0; i < nclients; i++ {
				// a fresh value per reference observation: the first use of a
				// value is what a lazily built field would be built in
				calls := 0
				one, _ := mk(boundedSource{c, &calls})
				mvRef[k][sf][i] = observeMV(one, pts[i], sf == 1)
			}
		}
		mvShared[k], _ = mk(constSource(c))
		rc.probe("shared_distmv", 1)
	}
	mvGot := make([][]mvObs, len(mvMake))
	for k := range mvGot {
		mvGot[k] = make([]mvObs, nclients)
	}
	samples := make([]mat.SymDense, nclients)
	chols := make([]mat.Cholesky, nclients)
	cfg := drawConfig(t, 60)
	cfg.PoolMode = simrt.PoolTape
	cfg.PoolPoison = true
	rc.Instance["policy"] = cfg.Policy.String()
	means := make([]mat.SymDense, nclients)
	lps := make([]float64, nclients)
	restoredCounts := make([]float64, nclients)
	out, viol := rc.Sim(prop, t, cfg, func() {
		var wg simrt.WaitGroup
		work := func(c int) {
			if c%2 == 0 {
				shared.MeanSymTo(&means[c])
				lps[c] = shared.LogProbSym(xs[c])
			} else {
				lps[c] = shared.LogProbSym(xs[c])
				shared.MeanSymTo(&means[c])
			}
			if sampler != nil {
				sampler.RandSymTo(&samples[c])
				sampler.RandCholTo(&chols[c])
			}
			for k, d := range mvShared {
				if d != nil {
					mvGot[k][c] = observeMV(d, pts[c], (c+k)%2 == 1)
				}
			}
			// the hash registry (sync.Map) from several goroutines
			card.RegisterHash(fnv.New64a)
			card.RegisterHash(fnv.New32a)
			var h card.HyperLogLog64
			src, _ := card.NewHyperLogLog64(4, fnv.New64a())
			src.Write([]byte{byte(c)})
			b, _ := src.MarshalBinary()
			if err := h.UnmarshalBinary(b); err != nil {
				simrt.Fail("registry-hash: decoding into a sketch without a hash failed right after RegisterHash returned: " + err.Error())
			}
			// sketches restored through the registry are independent objects:
			// every client feeds its own one, through a user hash that yields
			// in Write, and must count what it would count alone
			card.RegisterHash(newYieldHash64)
			empty, _ := card.NewHyperLogLog64(5, newYieldHash64())
			eb, _ := empty.MarshalBinary()
			var mine card.HyperLogLog64
			if err := mine.UnmarshalBinary(eb); err != nil {
				simrt.Fail("registry-hash: decoding a sketch with a registered user hash failed: " + err.Error())
			}
			for k := 0; k < 8; k++ {
				mine.Write([]byte{byte(c), byte(k), 0x5a})
			}
			restoredCounts[c] = mine.Count()
		}
		for c := 1; c < nclients; c++ {
			c := c
			wg.Add(1)
			simrt.Go(9300, func() { defer wg.Done(); work(c) })
		}
		work(0)
		wg.Wait()
	})
	if viol != nil {
		return viol
	}
	if out.Stats.Switches > nclients {
		rc.probe("lazy_state_built_under_contention", 1)
	}
	rc.probe("register_hash_concurrent", nclients)
	rc.oracle("same-as-serial")
	for k, d := range mvShared {
		if d == nil {
			continue
		}
		for c := 0; c < nclients; c++ {
			if df := mvGot[k][c].diff(&mvRef[k][(c+k)%2][c]); df != "" {
				return &Violation{prop, "shared-distmv/result-differs", fmt.Sprintf("client %d of %d on one shared %s with a stateless source: %s", c, nclients, mvNames[k], df)}
			}
		}
	}
	if sampler != nil {
		var refU mat.TriDense
		refChol.UTo(&refU)
		for c := 0; c < nclients; c++ {
			var u mat.TriDense
			chols[c].UTo(&u)
			for i := 0; i < n; i++ {
				for j := 0; j < n; j++ {
					if math.Float64bits(samples[c].At(i, j)) != math.Float64bits(refSample.At(i, j)) || math.Float64bits(u.At(i, j)) != math.Float64bits(refU.At(i, j)) {
						return &Violation{prop, "wishart/sample-differs", fmt.Sprintf("client %d: sample[%d,%d] from a shared Wishart with a stateless source = %v (Cholesky factor %v), a single goroutine draws %v (%v)", c, i, j, samples[c].At(i, j), u.At(i, j), refSample.At(i, j), refU.At(i, j))}
					}
				}
			}
		}
	}
	for c := 0; c < nclients; c++ {
		alone, _ := card.NewHyperLogLog64(5, fnv.New64a())
		for k := 0; k < 8; k++ {
			alone.Write([]byte{byte(c), byte(k), 0x5a})
		}
		if math.Float64bits(restoredCounts[c]) != math.Float64bits(alone.Count()) {
			return &Violation{prop, "registry/restored-sketch-differs", fmt.Sprintf("client %d: a sketch restored through the hash registry and fed 8 items counts %v while %d other clients feed theirs; alone it counts %v", c, restoredCounts[c], nclients-1, alone.Count())}
		}
	}
	for c := 0; c < nclients; c++ {
		if math.Float64bits(lps[c]) != math.Float64bits(refLP[c]) {
			return &Violation{prop, "wishart/result-differs", fmt.Sprintf("client %d: LogProbSym on a shared Wishart = %v, serially %v", c, lps[c], refLP[c])}
		}
		for i := 0; i < n; i++ {
			for j := 0; j < n; j++ {
				if math.Float64bits(means[c].At(i, j)) != math.Float64bits(refMean.At(i, j)) {
					return &Violation{prop, "wishart/result-differs", fmt.Sprintf("client %d: MeanSymTo[%d,%d] on a shared Wishart = %v, serially %v", c, i, j, means[c].At(i, j), refMean.At(i, j))}
				}
			}
		}
	}
	return nil
}
