package main

import (
	"math"

	"gonum.org/v1/gonum/mat"
)

// Second part of the S4 catalogue: the remaining users of mat's workspace
// pools (band and tridiagonal types, norms, pivoted and banded Cholesky,
// SVD solves with residuals, HOGSVD, aliased element-wise operations,
// SubsetSym, CDense.Copy with a transposed alias, QR.At).

func (r *opRand) band(n, kl, ku int) *mat.BandDense {
	b := mat.NewBandDense(n, n, kl, ku, nil)
	for i := 0; i < n; i++ {
		for j := i - kl; j <= i+ku; j++ {
			if j >= 0 && j < n {
				v := r.next()
				if i == j {
					v += float64(4 * (kl + ku + 1))
				}
				b.SetBand(i, j, v)
			}
		}
	}
	return b
}

func (r *opRand) symBand(n, k int) *mat.SymBandDense {
	b := mat.NewSymBandDense(n, k, nil)
	for i := 0; i < n; i++ {
		for j := i; j <= i+k && j < n; j++ {
			v := r.next()
			if i == j {
				v += float64(8*k + 8)
			}
			b.SetSymBand(i, j, v)
		}
	}
	return b
}

func init() {
	poolOps = append(poolOps,
		poolOp{"SVD.SolveTo/SolveVecTo(residuals, rank deficient and full U)", func(r *opRand, n int) []float64 {
			m := n + 3
			a := r.dense(m, n)
			var svd mat.SVD
			ok := svd.Factorize(a, mat.SVDFullU|mat.SVDThinV)
			out := []float64{b2f(ok)}
			if !ok {
				return out
			}
			rank := n
			if n > 2 {
				rank = n - 1
			}
			var x mat.Dense
			res := svd.SolveTo(&x, r.dense(m, 3), rank)
			var xv mat.VecDense
			rv := svd.SolveVecTo(&xv, r.vec(m), rank)
			var thin mat.SVD
			ok2 := thin.Factorize(a, mat.SVDThin)
			var x2 mat.Dense
			res2 := thin.SolveTo(&x2, r.dense(m, 2), rank)
			out = append(out, res...)
			out = append(out, rv, b2f(ok2))
			out = append(out, res2...)
			return append(append(out, flat(&x)...), append(flat(&xv), flat(&x2)...)...)
		}},
		poolOp{"Norms(Dense, SymDense, TriDense, bands)", func(r *opRand, n int) []float64 {
			a := r.dense(n, n+1)
			s := r.spd(n)
			t := mat.NewTriDense(n, mat.Lower, nil)
			for i := 0; i < n; i++ {
				for j := 0; j <= i; j++ {
					t.SetTri(i, j, r.next())
				}
			}
			k := 1
			if n < 2 {
				k = 0
			}
			b, sb := r.band(n, k, k), r.symBand(n, k)
			tb := mat.NewTriBandDense(n, k, mat.Upper, nil)
			for i := 0; i < n; i++ {
				for j := i; j <= i+k && j < n; j++ {
					tb.SetTriBand(i, j, 1+r.next())
				}
			}
			var out []float64
			for _, p := range []float64{1, 2, math.Inf(1)} {
				out = append(out, a.Norm(p), s.Norm(p), t.Norm(p), sb.Norm(p), tb.Norm(p), mat.Norm(b, p))
			}
			return out
		}},
		poolOp{"Band/Tridiag MulVecTo and SolveTo", func(r *opRand, n int) []float64 {
			k := 1
			if n < 3 {
				k = 0
			}
			b, sb := r.band(n, k, k), r.symBand(n, k)
			x := r.vec(n)
			var y1, y2, y3 mat.VecDense
			b.MulVecTo(&y1, n%2 == 0, x)
			sb.MulVecTo(&y2, false, x)
			out := append(flat(&y1), flat(&y2)...)
			tb := mat.NewTriBandDense(n, k, mat.Upper, nil)
			for i := 0; i < n; i++ {
				for j := i; j <= i+k && j < n; j++ {
					v := r.next()
					if i == j {
						v += 8
					}
					tb.SetTriBand(i, j, v)
				}
			}
			var xs mat.Dense
			err := tb.SolveTo(&xs, n%2 == 1, r.dense(n, 2))
			out = append(append(out, errf(err)), flat(&xs)...)
			if n >= 2 {
				dl, d, du := make([]float64, n-1), make([]float64, n), make([]float64, n-1)
				for i := range d {
					d[i] = 6 + r.next()
				}
				for i := range dl {
					dl[i], du[i] = r.next(), r.next()
				}
				td := mat.NewTridiag(n, dl, d, du)
				td.MulVecTo(&y3, n%2 == 0, x)
				var xt mat.Dense
				err := td.SolveTo(&xt, false, r.dense(n, 2))
				out = append(append(append(out, flat(&y3)...), errf(err)), flat(&xt)...)
			}
			var bc mat.BandCholesky
			ok := bc.Factorize(sb)
			var xb mat.Dense
			err2 := bc.SolveTo(&xb, r.dense(n, 2))
			return append(append(out, b2f(ok), errf(err2), bc.Cond()), flat(&xb)...)
		}},
		poolOp{"PivotedCholesky", func(r *opRand, n int) []float64 {
			s := r.spd(n)
			if n > 2 {
				// make it rank deficient: last row/column copies the first
				for j := 0; j < n; j++ {
					s.SetSym(n-1, j, s.At(0, j))
				}
				s.SetSym(n-1, n-1, s.At(0, 0))
			}
			var pc mat.PivotedCholesky
			ok := pc.Factorize(s, -1)
			out := []float64{b2f(ok), float64(pc.Rank()), pc.Cond()}
			if ok {
				var x mat.Dense
				err := pc.SolveTo(&x, r.dense(n, 2))
				out = append(append(out, errf(err)), flat(&x)...)
			}
			var u mat.TriDense
			pc.UTo(&u)
			return append(out, flat(&u)...)
		}},
		poolOp{"TriDense.SolveTo/LU.SolveTo(aliased)/Dense.Scale,Apply,Copy(aliased transpose)", func(r *opRand, n int) []float64 {
			a := r.wellCond(n)
			t := mat.NewTriDense(n, mat.Upper, nil)
			for i := 0; i < n; i++ {
				for j := i; j < n; j++ {
					t.SetTri(i, j, a.At(i, j))
				}
			}
			var x mat.Dense
			err := t.SolveTo(&x, n%2 == 0, r.dense(n, 2))
			var lu mat.LU
			lu.Factorize(a)
			b := r.dense(n, n)
			err2 := lu.SolveTo(b, false, b) // destination aliases the right-hand side
			sq := r.dense(n, n)
			sq.Scale(0.5, sq.T()) // isolated workspace: receiver aliases the transposed operand
			sq.Apply(func(i, j int, v float64) float64 { return v + float64(i-j) }, sq.T())
			var s2 mat.SymDense
			s := r.spd(n)
			set := make([]int, n)
			for i := range set {
				set[i] = (i*2 + 1) % n
			}
			s2.SubsetSym(s, set)
			s.SubsetSym(s, set) // aliased
			return append(append(append(flat(&x), errf(err), errf(err2)), flat(b)...), append(flat(sq), append(flat(&s2), flat(s)...)...)...)
		}},
		poolOp{"QR.At/LQ.At via flat", func(r *opRand, n int) []float64 {
			a := r.dense(n+1, n)
			var qr mat.QR
			qr.Factorize(a)
			var lq mat.LQ
			lq.Factorize(a.T())
			return append(flat(&qr), flat(&lq)...)
		}},
		poolOp{"HOGSVD", func(r *opRand, n int) []float64 {
			if n > 6 {
				n = 6
			}
			ms := []mat.Matrix{r.dense(n+2, n), r.dense(n+3, n), r.dense(n+1, n)}
			for _, m := range ms {
				d := m.(*mat.Dense)
				for i := 0; i < n; i++ {
					d.Set(i, i, d.At(i, i)+6)
				}
			}
			var h mat.HOGSVD
			ok := h.Factorize(ms...)
			out := []float64{b2f(ok)}
			if !ok {
				return out
			}
			var v mat.Dense
			h.VTo(&v)
			out = append(out, flat(&v)...)
			for i := 0; i < h.Len(); i++ {
				out = append(out, h.Values(nil, i)...)
			}
			return out
		}},
		poolOp{"CDense.Copy(conjugate transpose of itself)", func(r *opRand, n int) []float64 {
			c := mat.NewCDense(n, n, nil)
			for i := 0; i < n; i++ {
				for j := 0; j < n; j++ {
					c.Set(i, j, complex(r.next(), r.next()))
				}
			}
			c.Copy(c.H())
			var out []float64
			for i := 0; i < n; i++ {
				for j := 0; j < n; j++ {
					out = append(out, real(c.At(i, j)), imag(c.At(i, j)))
				}
			}
			return out
		}},
	)
}
