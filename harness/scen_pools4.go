package main

import (
	"math/rand/v2"

	"gonum.org/v1/gonum/blas"
	"gonum.org/v1/gonum/blas/blas64"
	"gonum.org/v1/gonum/lapack"
	"gonum.org/v1/gonum/lapack/lapack64"
	"gonum.org/v1/gonum/mat"
	"gonum.org/v1/gonum/stat"
	"gonum.org/v1/gonum/stat/distmat"
	"gonum.org/v1/gonum/stat/distmv"
)

// Fourth part of the S4 catalogue: the "stat" and "lapack" of "mixes of
// mat/lapack/stat operations running in parallel goroutines". The stat and
// distmv operations reach the pooled workspaces of package mat through
// Cholesky, SVD, Solve and friends; the lapack64 / blas64 calls work on
// caller-owned storage only and are the control group of the mix (nothing
// shared, so nothing may differ).

func (r *opRand) slice(n int) []float64 {
	s := make([]float64, n)
	for i := range s {
		s[i] = r.next()
	}
	return s
}

func (r *opRand) weights(n int) []float64 {
	w := make([]float64, n)
	for i := range w {
		w[i] = 1 + r.next()/8 // in [0.5, 1.5)
	}
	return w
}

func init() {
	poolOps = append(poolOps,
		poolOp{"stat.CorrelationMatrix(weighted)/CovarianceMatrix(weighted)", func(r *opRand, n int) []float64 {
			x := r.dense(n+4, n)
			w := r.weights(n + 4)
			var cor, cov mat.SymDense
			stat.CorrelationMatrix(&cor, x, w)
			stat.CovarianceMatrix(&cov, x, w)
			return flat(&cor, &cov)
		}},
		poolOp{"stat.PC(weighted)", func(r *opRand, n int) []float64 {
			x := r.dense(n+3, n)
			var pc stat.PC
			ok := pc.PrincipalComponents(x, r.weights(n+3))
			var vecs mat.Dense
			pc.VectorsTo(&vecs)
			return append(append(flat(&vecs), pc.VarsTo(nil)...), b2f(ok))
		}},
		poolOp{"stat.CC", func(r *opRand, n int) []float64 {
			if n > 6 {
				n = 6
			}
			x, y := r.dense(2*n+5, n+1), r.dense(2*n+5, n) // (LeftTo needs at least as many x as y variables)
			var cc stat.CC
			if err := cc.CanonicalCorrelations(x, y, nil); err != nil {
				return []float64{-1}
			}
			var l, rt mat.Dense
			cc.LeftTo(&l, true)
			cc.RightTo(&rt, false)
			return append(flat(&l, &rt), cc.CorrsTo(nil)...)
		}},
		poolOp{"stat.Mahalanobis", func(r *opRand, n int) []float64 {
			var ch mat.Cholesky
			ok := ch.Factorize(r.spd(n))
			return []float64{stat.Mahalanobis(r.vec(n), r.vec(n), &ch), b2f(ok)}
		}},
		poolOp{"distmv.Normal.Condition/Marginal/Transform/Score", func(r *opRand, n int) []float64 {
			if n < 2 {
				n = 2
			}
			nrm, ok := distmv.NewNormal(r.slice(n), r.spd(n), rand.NewPCG(uint64(n), 11))
			if !ok {
				return []float64{-1}
			}
			out := []float64{}
			if c, ok := nrm.ConditionNormal([]int{0}, []float64{r.next()}, rand.NewPCG(3, uint64(n))); ok {
				var cov mat.SymDense
				c.CovarianceMatrix(&cov)
				out = append(append(out, c.Mean(nil)...), flat(&cov)...)
				out = append(out, c.Rand(nil)...)
			}
			if m, ok := nrm.MarginalNormal([]int{n - 1, 0}, rand.NewPCG(5, uint64(n))); ok {
				out = append(out, m.LogProb(r.slice(2)), m.Entropy())
			}
			out = append(out, nrm.TransformNormal(nil, r.slice(n))...)
			out = append(out, nrm.ScoreInput(nil, r.slice(n))...)
			p := r.slice(n)
			for i := range p {
				p[i] = 0.5 + p[i]/10 // in [0.1, 0.9)
			}
			return append(out, nrm.Quantile(nil, p)...)
		}},
		poolOp{"distmv.StudentsT", func(r *opRand, n int) []float64 {
			if n < 2 {
				n = 2
			}
			st, ok := distmv.NewStudentsT(r.slice(n), r.spd(n), 4.5, rand.NewPCG(uint64(n), 13))
			if !ok {
				return []float64{-1}
			}
			out := append(st.Rand(nil), st.LogProb(r.slice(n)))
			var cov mat.SymDense
			st.CovarianceMatrix(&cov)
			out = append(out, flat(&cov)...)
			if c, ok := st.ConditionStudentsT([]int{1}, []float64{r.next()}, rand.NewPCG(7, uint64(n))); ok {
				out = append(out, c.Mean(nil)...)
				out = append(out, c.LogProb(r.slice(n-1)))
			}
			if m, ok := st.MarginalStudentsT([]int{0}, rand.NewPCG(9, uint64(n))); ok {
				out = append(out, m.LogProb(r.slice(1)))
			}
			return out
		}},
		poolOp{"distmat.Wishart(own value)", func(r *opRand, n int) []float64 {
			if n > 8 {
				n = 8
			}
			w, ok := distmat.NewWishart(r.spd(n), float64(n+3), rand.NewPCG(uint64(n), 17))
			if !ok {
				return []float64{-1}
			}
			var s, m mat.SymDense
			w.RandSymTo(&s)
			w.MeanSymTo(&m)
			var ch mat.Cholesky
			w.RandCholTo(&ch)
			return append(flat(&s, &m), w.LogProbSym(r.spd(n)), w.LogProbSymChol(&ch))
		}},
		poolOp{"distmat.UniformPermutation", func(r *opRand, n int) []float64 {
			p := distmat.NewUniformPermutation(rand.NewPCG(uint64(n), 19))
			var d mat.Dense
			d.ReuseAs(n, n)
			p.PermTo(&d)
			return flat(&d)
		}},
		poolOp{"lapack64.Potrf/Potrs (caller-owned storage)", func(r *opRand, n int) []float64 {
			a := r.spd(n)
			s := a.RawSymmetric()
			t, ok := lapack64.Potrf(s)
			b := r.dense(n, 2)
			if ok {
				lapack64.Potrs(t, b.RawMatrix())
			}
			return append(flat(b), b2f(ok))
		}},
		poolOp{"lapack64.Getrf/Getri/Gecon (caller-owned storage)", func(r *opRand, n int) []float64 {
			a := r.wellCond(n)
			g := a.RawMatrix()
			anorm := lapack64.Lange(lapack.MaxColumnSum, g, make([]float64, n))
			ipiv := make([]int, n)
			ok := lapack64.Getrf(g, ipiv)
			rcond := lapack64.Gecon(lapack.MaxColumnSum, g, anorm, make([]float64, 4*n), make([]int, n))
			work := make([]float64, 1)
			lapack64.Getri(g, ipiv, work, -1)
			work = make([]float64, int(work[0]))
			lapack64.Getri(g, ipiv, work, len(work))
			return append(flat(a), rcond, b2f(ok))
		}},
		poolOp{"lapack64.Geqrf/Ormqr/Syev (caller-owned storage)", func(r *opRand, n int) []float64 {
			a := r.dense(n+2, n)
			g := a.RawMatrix()
			tau := make([]float64, n)
			work := make([]float64, 1)
			lapack64.Geqrf(g, tau, work, -1)
			work = make([]float64, int(work[0]))
			lapack64.Geqrf(g, tau, work, len(work))
			c := r.dense(n+2, 3)
			w2 := make([]float64, 1)
			lapack64.Ormqr(blas.Left, blas.Trans, g, tau, c.RawMatrix(), w2, -1)
			w2 = make([]float64, int(w2[0]))
			lapack64.Ormqr(blas.Left, blas.Trans, g, tau, c.RawMatrix(), w2, len(w2))
			s := r.sym(n)
			ev := make([]float64, n)
			w3 := make([]float64, 1)
			lapack64.Syev(lapack.EVCompute, s.RawSymmetric(), ev, w3, -1)
			w3 = make([]float64, int(w3[0]))
			ok := lapack64.Syev(lapack.EVCompute, s.RawSymmetric(), ev, w3, len(w3))
			return append(append(flat(a, c), ev...), b2f(ok))
		}},
		poolOp{"GSVD (tall and wide A; extraction after other pool traffic)", func(r *opRand, n int) []float64 {
			if n > 7 {
				n = 7
			}
			// wide: rows(A) < k+l, the shape in which [0 R] takes rows from B's factor
			shapes := [][3]int{{n + 2, n + 3, n}, {n/2 + 1, n + 3, n + 1}}
			var out []float64
			for _, sh := range shapes {
				a, b := r.dense(sh[0], sh[2]), r.dense(sh[1], sh[2])
				var g mat.GSVD
				ok := g.Factorize(a, b, mat.GSVDU|mat.GSVDV|mat.GSVDQ)
				out = append(out, b2f(ok))
				if !ok {
					continue
				}
				// a factorization keeps no pooled storage: unrelated pool
				// traffic before the extraction must not show in it
				sq := r.dense(n+1, n+1)
				sq.Mul(sq, sq)
				var zr, sa, sb, u, v, q mat.Dense
				g.ZeroRTo(&zr)
				g.SigmaATo(&sa)
				g.SigmaBTo(&sb)
				g.UTo(&u)
				g.VTo(&v)
				g.QTo(&q)
				out = append(out, flat(&zr, &sa, &sb, &u, &v, &q)...)
				out = append(out, g.GeneralizedValues(nil)...)
				out = append(out, g.ValuesA(nil)...)
				out = append(out, g.ValuesB(nil)...)
			}
			return out
		}},
		poolOp{"blas64.Gemm/Syrk/Trsm (caller-owned storage)", func(r *opRand, n int) []float64 {
			a, b := r.dense(n, n+1), r.dense(n+1, n)
			c := r.dense(n, n)
			blas64.Gemm(blas.NoTrans, blas.NoTrans, 1.5, a.RawMatrix(), b.RawMatrix(), -0.5, c.RawMatrix())
			s := r.spd(n)
			blas64.Syrk(blas.NoTrans, 0.25, a.RawMatrix(), 1, s.RawSymmetric())
			t := r.tri(n, mat.Upper)
			x := r.dense(n, 2)
			blas64.Trsm(blas.Left, blas.NoTrans, 1, t.RawTriangular(), x.RawMatrix())
			return flat(c, s, x)
		}},
	)
}
