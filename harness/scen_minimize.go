package main

import (
	"errors"
	"fmt"
	"math"
	"math/rand/v2"
	"strings"
	"time"

	"gonum.org/v1/gonum/mat"
	"gonum.org/v1/gonum/optimize"
	"gonum.org/v1/gonum/optimize/functions"
	"verif/simrt"
)

// S7 / C19: optimize.Minimize as a simulated multi-party protocol
// (DESIGN.md sections 4 and 7).

var errInjected = errors.New("verif: injected failure")

const (
	mGD = iota
	mCGFR
	mCGPRP
	mCGHS
	mCGDY
	mCGHZ
	mBFGS
	mLBFGS
	mNewton
	mNelderMead
	mCmaEs
	mGuessAndCheck
	mListSearch
	mStub
	nMethods
)

var methodNames = [nMethods]string{"GradientDescent", "CG/FletcherReeves", "CG/PolakRibierePolyak", "CG/HestenesStiefel", "CG/DaiYuan", "CG/HagerZhang",
	"BFGS", "LBFGS", "Newton", "NelderMead", "CmaEsChol", "GuessAndCheck", "ListSearch", "StubMethod"}

func isLocal(m int) bool  { return m <= mNelderMead }
func usesLS(m int) bool   { return m <= mNewton }
func isGlobal(m int) bool { return m >= mCmaEs }

// objective is a deterministic function of x (also where it returns NaN/Inf),
// so that coherence can be checked by re-evaluation.
type objective struct {
	name   string
	dim    int
	f      func(x []float64) float64
	grad   func(g, x []float64)
	hess   func(h *mat.SymDense, x []float64)
	nanCut float64       // bad region: x[0] > nanCut
	qa     *mat.SymDense // quadratics: f = x'Ax/2 - b'x
	qb     []float64
	bad    int // 0 none, 1 NaN, 2 +Inf, 3 -Inf in the bad region
}

func (o *objective) inBad(x []float64) bool { return o.bad != 0 && x[0] > o.nanCut }

func (o *objective) badVal() float64 {
	switch o.bad {
	case 1:
		return math.NaN()
	case 2:
		return math.Inf(1)
	}
	return math.Inf(-1)
}

func (o *objective) F(x []float64) float64 {
	if o.inBad(x) {
		return o.badVal()
	}
	return o.f(x)
}

func (o *objective) Grad(g, x []float64) {
	if o.inBad(x) {
		for i := range g {
			g[i] = math.NaN()
		}
		return
	}
	o.grad(g, x)
}

func drawObjective(t *simrt.Tape, dim int, forceQuadratic bool) *objective {
	o := &objective{dim: dim}
	kind := t.Choose(simrt.KWorkload, 6)
	if kind == 5 {
		kind = 0
	}
	if forceQuadratic {
		kind = 0
	}
	if kind == 1 && dim%2 != 0 {
		kind = 0
	}
	switch kind {
	case 0:
		// strictly convex quadratic with small integer data: A = M'M + I
		m := make([]float64, dim*dim)
		for i := range m {
			m[i] = float64(t.Choose(simrt.KValue, 5) - 2)
		}
		a := mat.NewSymDense(dim, nil)
		for i := 0; i < dim; i++ {
			for j := i; j < dim; j++ {
				var s float64
				for k := 0; k < dim; k++ {
					s += m[k*dim+i] * m[k*dim+j]
				}
				if i == j {
					s++
				}
				a.SetSym(i, j, s)
			}
		}
		b := make([]float64, dim)
		for i := range b {
			b[i] = float64(t.Choose(simrt.KValue, 7) - 3)
		}
		o.name = fmt.Sprintf("quadratic(A=%v,b=%v)", a.RawSymmetric().Data, b)
		o.qa, o.qb = a, b
		o.f = func(x []float64) float64 {
			var s float64
			for i := 0; i < dim; i++ {
				var r float64
				for j := 0; j < dim; j++ {
					r += a.At(i, j) * x[j]
				}
				s += x[i] * (0.5*r - b[i])
			}
			return s
		}
		o.grad = func(g, x []float64) {
			for i := 0; i < dim; i++ {
				var r float64
				for j := 0; j < dim; j++ {
					r += a.At(i, j) * x[j]
				}
				g[i] = r - b[i]
			}
		}
		o.hess = func(h *mat.SymDense, x []float64) { h.CopySym(a) }
	case 1:
		fn := functions.ExtendedRosenbrock{}
		o.name = "ExtendedRosenbrock"
		o.f = fn.Func
		o.grad = fn.Grad
	case 2:
		o.name = "sum cosh(x_i - i/2)"
		o.f = func(x []float64) float64 {
			var s float64
			for i, v := range x {
				s += math.Cosh(v - float64(i)/2)
			}
			return s
		}
		o.grad = func(g, x []float64) {
			for i, v := range x {
				g[i] = math.Sinh(v - float64(i)/2)
			}
		}
		o.hess = func(h *mat.SymDense, x []float64) {
			for i := range x {
				for j := i; j < len(x); j++ {
					h.SetSym(i, j, 0)
				}
				h.SetSym(i, i, math.Cosh(x[i]-float64(i)/2))
			}
		}
	case 3:
		// the optimize/functions catalogue, by dimension
		type cat interface {
			Func(x []float64) float64
			Grad(g, x []float64)
		}
		type catH interface {
			Hess(h *mat.SymDense, x []float64)
		}
		var choices []cat
		switch dim {
		case 2:
			choices = []cat{functions.Beale{}, functions.BrownBadlyScaled{}, functions.PowellBadlyScaled{}, functions.BiggsEXP2{}}
		case 3:
			choices = []cat{functions.Box3D{}, functions.BiggsEXP3{}, functions.Watson{}}
		case 4:
			choices = []cat{functions.Wood{}, functions.BrownAndDennis{}, functions.ExtendedPowellSingular{}, functions.BiggsEXP4{}}
		case 5:
			choices = []cat{functions.BiggsEXP5{}, functions.Watson{}}
		case 6:
			choices = []cat{functions.BiggsEXP6{}, functions.Watson{}}
		}
		choices = append(choices, functions.Trigonometric{}, functions.VariablyDimensioned{}, functions.PenaltyI{})
		if dim == 1 {
			choices = choices[1:] // Trigonometric is fine in any dimension, keep the rest
		}
		fn := choices[t.Choose(simrt.KWorkload, len(choices))]
		o.name = fmt.Sprintf("%T", fn)
		o.f = fn.Func
		o.grad = fn.Grad
		if h, ok := fn.(catH); ok {
			o.hess = h.Hess
		}
	case 4:
		// separable double well: the Hessian 3x^2-1 is indefinite around the
		// origin (Newton's regularisation loop)
		o.name = "double well"
		o.f = func(x []float64) float64 {
			var s float64
			for i, v := range x {
				s += v*v*v*v/4 - v*v/2 + 0.125*v*float64(i+1)/float64(len(x))
			}
			return s
		}
		o.grad = func(g, x []float64) {
			for i, v := range x {
				g[i] = v*v*v - v + 0.125*float64(i+1)/float64(len(x))
			}
		}
		o.hess = func(h *mat.SymDense, x []float64) {
			for i := range x {
				for j := i; j < len(x); j++ {
					h.SetSym(i, j, 0)
				}
				h.SetSym(i, i, 3*x[i]*x[i]-1)
			}
		}
	}
	if t.Choose(simrt.KFault, 4) == 3 {
		o.bad = 1 + t.Choose(simrt.KFault, 3)
		o.nanCut = float64(t.Choose(simrt.KFault, 5)) - 1.5
		o.name += fmt.Sprintf("+%v(x0>%v)", o.badVal(), o.nanCut)
	}
	return o
}

// evalLog records objective callbacks from worker goroutines (norace, no
// allocation; see callLog).
type evalLog struct {
	limit               int // callbacks after which the run counts as not terminating
	dim                 int
	xs                  []float64
	fs                  []float64
	n                   int
	nFunc, nGrad, nHess int
	inflight, maxIn     int
	nStatus             int
	overflow            bool
	nanX                bool // some evaluation point had a NaN or Inf coordinate
	firstBad            int  // what went non-finite first: 1 a value or gradient at a finite point, 2 an evaluation point
	best                float64
	hasBest             bool
	lastImprove         int         // value of nFunc when the lowest F so far was found
	supplied            [][]float64 // points whose values were handed to the method (NelderMead.InitialVertices)
}

func newEvalLog(dim, capacity int) *evalLog {
	return &evalLog{dim: dim, xs: make([]float64, dim*capacity), fs: make([]float64, capacity), limit: runawayLimit}
}

// runawayLimit bounds the callbacks of one Minimize call; every limit the
// harness configures is far below it. defaultSettingsRunaway is the bound for
// runs with no limit at all (isolated == 4), which stop when the default
// convergence tests say so. Past it a run is a violation only if it has stopped
// moving (the same point, or a NaN point, evaluated again and again); a run
// that is still lowering F is abandoned without a verdict.
const (
	runawayLimit           = 6000
	defaultSettingsRunaway = 60000
)

//go:norace
func (l *evalLog) runaway() bool { return l.nFunc+l.nGrad+l.nHess > l.limit }

// stalled reports whether the last k recorded evaluations were all at the
// same point up to rounding level (each coordinate within 1e-13*(1+|x|) of the
// last one: a line search whose interval has collapsed may still creep by one
// ulp per evaluation for thousands of evaluations before it settles).
//
//go:norace
func (l *evalLog) stalled(k int) bool {
	if l.n < k {
		return false
	}
	for j := l.n - k; j < l.n-1; j++ {
		for i := 0; i < l.dim; i++ {
			last := l.xs[(l.n-1)*l.dim+i]
			d := l.xs[j*l.dim+i] - last
			if d < 0 {
				d = -d
			}
			a := last
			if a < 0 {
				a = -a
			}
			if !(d <= 1e-13*(1+a)) {
				return false
			}
		}
	}
	return true
}

//go:norace
func (l *evalLog) enter() {
	l.inflight++
	if l.inflight > l.maxIn {
		l.maxIn = l.inflight
	}
}

//go:norace
func (l *evalLog) leave() { l.inflight-- }

//go:norace
func (l *evalLog) recFunc(x []float64, f float64) {
	l.nFunc++
	l.note(x, f)
	if !l.hasBest || f < l.best {
		l.best, l.hasBest, l.lastImprove = f, true, l.nFunc
	}
	if l.n < len(l.fs) {
		for i := 0; i < l.dim; i++ {
			l.xs[l.n*l.dim+i] = x[i]
		}
		l.fs[l.n] = f
		l.n++
	} else {
		l.overflow = true
	}
}

// note classifies the first non-finite thing a run meets.
//
//go:norace
func (l *evalLog) note(x []float64, vals ...float64) {
	for i := 0; i < l.dim; i++ {
		if x[i] != x[i] || x[i] > math.MaxFloat64 || x[i] < -math.MaxFloat64 {
			l.nanX = true
			if l.firstBad == 0 {
				l.firstBad = 2
			}
			return
		}
	}
	for _, v := range vals {
		if (v != v || v > math.MaxFloat64 || v < -math.MaxFloat64) && l.firstBad == 0 {
			l.firstBad = 1
		}
	}
}

//go:norace
func (l *evalLog) incGrad() { l.nGrad++ }

//go:norace
func (l *evalLog) incHess() { l.nHess++ }

//go:norace
func (l *evalLog) incStatus() int { l.nStatus++; return l.nStatus }

func (l *evalLog) evaluatedAt(x []float64) bool {
	for _, v := range l.supplied {
		if sameBits(v, x) {
			return true
		}
	}
	for k := 0; k < l.n; k++ {
		same := true
		for i := 0; i < l.dim; i++ {
			if math.Float64bits(l.xs[k*l.dim+i]) != math.Float64bits(x[i]) {
				same = false
				break
			}
		}
		if same {
			return true
		}
	}
	return false
}

// minValue returns the minimum recorded F ignoring NaN (+Inf if none).
func (l *evalLog) minValue() float64 {
	m := math.Inf(1)
	for k := 0; k < l.n; k++ {
		if l.fs[k] < m {
			m = l.fs[k]
		}
	}
	return m
}

func (l *evalLog) allFinite() bool {
	for k := 0; k < l.n; k++ {
		if math.IsNaN(l.fs[k]) || math.IsInf(l.fs[k], 0) {
			return false
		}
	}
	return true
}

// recLog records Recorder calls.
type recEntry struct {
	op    optimize.Operation
	stats optimize.Stats
	f     float64
	x, g  []float64 // copies, kept for InitIteration and MajorIteration records (x also for the record that follows one)
}

type recorder struct {
	initCalls int
	entries   []recEntry
	inRecord  bool
	overlap   bool
	initErr   bool
	errAt     int // fail the errAt-th Record call (1-based; 0 = never)
	failed    int // index of the failed call
}

func (r *recorder) Init() error {
	r.initCalls++
	if r.initErr {
		return errInjected
	}
	return nil
}

func (r *recorder) Record(loc *optimize.Location, op optimize.Operation, st *optimize.Stats) error {
	if r.inRecord {
		r.overlap = true
	}
	r.inRecord = true
	simrt.Yield()
	e := recEntry{op: op, stats: *st, f: loc.F}
	if (op == optimize.InitIteration || op == optimize.MajorIteration) && len(r.entries) < 400 {
		e.x = append([]float64(nil), loc.X...)
		if loc.Gradient != nil {
			e.g = append([]float64(nil), loc.Gradient...)
		}
	} else if n := len(r.entries); n > 0 && n < 400 && r.entries[n-1].x != nil && (r.entries[n-1].op == optimize.InitIteration || r.entries[n-1].op == optimize.MajorIteration) {
		// the first trial point of a line search
		e.x = append([]float64(nil), loc.X...)
	}
	r.entries = append(r.entries, e)
	r.inRecord = false
	if r.errAt > 0 && len(r.entries) == r.errAt {
		r.failed = r.errAt
		return errInjected
	}
	return nil
}

// failWriter is the io.Writer behind optimize.Printer: short-lived "device"
// that fails at the k-th write.
type failWriter struct {
	writes int
	bytes  int
	failAt int
	failed bool
}

func (w *failWriter) Write(p []byte) (int, error) {
	w.writes++
	if w.failAt > 0 && w.writes >= w.failAt {
		w.failed = true
		return 0, errInjected
	}
	w.bytes += len(p)
	return len(p), nil
}

// boxRander is the distmv.Rander of GuessAndCheck: uniform in a box, from a
// generator seeded by the tape.
type boxRander struct {
	r *rand.Rand
}

func (b *boxRander) Rand(x []float64) []float64 {
	for i := range x {
		x[i] = math.Round((b.r.Float64()*8-4)*64) / 64
	}
	return x
}

type minInst struct {
	method     int
	ls         int
	dim        int
	obj        *objective
	initX      []float64
	conc       int
	set        optimize.Settings
	useRec     int // 0 none, 1 harness recorder, 2 Printer
	recInitErr bool
	recErrAt   int
	statusAt   int // Problem.Status returns something at this call (1-based; 0 = Status not set / never)
	statusKind int // 1: terminal status, 2: error, 3: a status registered with NewStatus
	hasStatus  bool
	initVals   int
	primeSame  bool
	convKind   int
	pop        int
	forgetBest bool
	rows       int
	seed       uint64
	stubCfg    stubConfig
	writerFail int
	isolated   int  // 0 no; 1 FuncEvaluations only; 2 MajorIterations only; 3 Runtime only; 4 no limit at all: default settings on a convex quadratic
	nilSet     bool // isolated == 4: pass settings == nil
	lsKnob     int  // explicit Linesearcher parameters (0 = zero value)
	stepKnob   int  // StepSizer of GradientDescent / CG (0 = nil)
	lsTies     bool // ListSearch: an even objective and sign-flipped rows, so that several rows attain the minimum
	nmVerts    bool // NelderMead: the initial simplex (initX first) and its values are supplied
	nmFar      bool // ... and the simplex lies away from initX ("it is used and initLoc is ignored")
	cmaStop    int  // CmaEsChol.StopLogDet: 0 NaN (criterion off), 1 default, 2 +Inf (converged after the first generation)
	costly     bool
	fcAbs      float64 // FunctionConverge parameters (convKind 2)
	fcRel      float64
	fcIter     int
	knob       int  // method tuning knob variant (0 = defaults)
	nilMethod  bool // pass method == nil: Minimize picks LBFGS (with Grad) or NelderMead
	prime      int  // the method value is reused: a first Minimize call, stopped by 1 func / 2 grad / 3 hess limit or 4 Problem.Status, precedes the run under test
	primeN     int
	primeNaN   bool // the earlier run ends because its gradient turns NaN
}

// minCorpus: instances on which a repaired defect was first seen and that the
// random generator meets too rarely for the quick tier to meet again (one run
// in 150 replays one of them; tools/regress_fixes.sh relies on it).
var minCorpus = []struct {
	method, ls int
	a          []float64 // upper triangle, row major
	b, x0      []float64
	reuse      bool // the method value has been through a run whose gradient turned NaN
}{
	// finding 25 (d6ea6ba): CG gives up far from the minimizer
	{mCGPRP, 3, []float64{2, -1, 3}, []float64{0, -2}, []float64{-4, -4}, false},
	{mCGPRP, 2, []float64{2, 1, 3}, []float64{-3, 1}, []float64{-4, 2}, false},
	{mCGHS, 1, []float64{6, 1, 2}, []float64{-2, -3}, []float64{1, -4}, false},
	// finding 10 (8a7acce): MoreThuente collapsed at rounding level
	{mGD, 3, []float64{5, 2, 6}, []float64{-1, -3}, []float64{-1.5, -0.5}, false},
	{mCGPRP, 0, []float64{6, -5, 6}, []float64{3, 2}, []float64{-2, 2.5}, false},
	// started at the exact minimizer (finding 30)
	{mBFGS, 0, []float64{2, 1, 3}, []float64{0, 0}, []float64{0, 0}, false},
	{mGD, 1, []float64{4, 0, 1}, []float64{4, -1}, []float64{1, -1}, false},
	{mLBFGS, 3, []float64{2}, []float64{0}, []float64{0}, false},
	// a method value reused after a failed run (finding 56)
	{mLBFGS, 1, []float64{2, 0, 20}, []float64{2, -40}, []float64{3, 1}, true},
	{mLBFGS, 0, []float64{2, 1, 3}, []float64{1, -1}, []float64{-2, 2}, true},
	{mBFGS, 1, []float64{2, 0, 20}, []float64{2, -40}, []float64{3, 1}, true},
}

func corpusMinimize(k int) *minInst {
	c := minCorpus[k]
	dim := len(c.b)
	in := &minInst{method: c.method, ls: c.ls, dim: dim, initX: append([]float64(nil), c.x0...), isolated: 4}
	if c.reuse {
		in.prime, in.primeN, in.primeNaN = 1, 50, true
	}
	a := mat.NewSymDense(dim, nil)
	idx := 0
	for i := 0; i < dim; i++ {
		for j := i; j < dim; j++ {
			a.SetSym(i, j, c.a[idx])
			idx++
		}
	}
	b := c.b
	o := &objective{dim: dim, qa: a, qb: b, name: fmt.Sprintf("quadratic(A=%v,b=%v)", a.RawSymmetric().Data, b)}
	o.f = func(x []float64) float64 {
		var s float64
		for i := 0; i < dim; i++ {
			var r float64
			for j := 0; j < dim; j++ {
				r += a.At(i, j) * x[j]
			}
			s += x[i] * (0.5*r - b[i])
		}
		return s
	}
	o.grad = func(g, x []float64) {
		for i := 0; i < dim; i++ {
			var r float64
			for j := 0; j < dim; j++ {
				r += a.At(i, j) * x[j]
			}
			g[i] = r - b[i]
		}
	}
	o.hess = func(h *mat.SymDense, x []float64) { h.CopySym(a) }
	in.obj = o
	return in
}

func drawMinimize(t *simrt.Tape) *minInst {
	if t.Choose(simrt.KWorkload, 150) == 149 {
		return corpusMinimize(t.Choose(simrt.KWorkload, len(minCorpus)))
	}
	in := &minInst{}
	in.method = t.Choose(simrt.KWorkload, nMethods)
	in.dim = 1 + t.Choose(simrt.KWorkload, 5+scale)
	if in.method == mNelderMead || in.method == mCmaEs {
		// keep evaluation counts small
		in.dim = 1 + t.Choose(simrt.KWorkload, 4)
	}
	if usesLS(in.method) {
		in.ls = t.Choose(simrt.KWorkload, 4)
		if in.ls != 0 {
			in.lsKnob = t.Choose(simrt.KWorkload, 4)
		}
		if in.method <= mCGHZ {
			in.stepKnob = t.Choose(simrt.KWorkload, 6)
		}
	}
	defaults := usesLS(in.method) && t.Choose(simrt.KWorkload, 8) == 7
	if defaults && in.lsKnob == 3 && in.method != mNewton {
		// (Newton's step on a quadratic is exactly 1, the upper end of the
		// bounded interval: a step at the bound that satisfies the
		// conditions is a converged search, not a failed one)
		// a bounded step interval may legitimately end a run far from the
		// minimizer; the reach-the-minimizer oracle is for unbounded searches
		in.lsKnob = 0
	}
	in.obj = drawObjective(t, in.dim, defaults)
	if in.method == mNewton && in.obj.hess == nil {
		in.method = mBFGS
	}
	if in.method == mNelderMead && in.obj.bad == 0 && !defaults && t.Choose(simrt.KFault, 3) == 2 {
		// NelderMead orders and compares values at every step, and reflects
		// and expands beyond its simplex: a NaN half-space next to the start
		// is where those comparisons meet NaN
		in.obj.bad = 1
		in.obj.nanCut = float64(t.Choose(simrt.KFault, 9)) - 4.5
		in.obj.name += fmt.Sprintf("+%v(x0>%v)", in.obj.badVal(), in.obj.nanCut)
	}
	in.initX = make([]float64, in.dim)
	for i := range in.initX {
		in.initX[i] = float64(t.Choose(simrt.KValue, 17)-8) / 2
	}
	in.conc = t.Choose(simrt.KWorkload, 9)
	in.seed = uint64(t.Choose(simrt.KValue, 1<<30))
	in.isolated = 0
	if t.Choose(simrt.KWorkload, 6) == 5 {
		in.isolated = 1 + t.Choose(simrt.KWorkload, 3)
	}
	if defaults {
		in.isolated = 4
	}
	s := &in.set
	s.Concurrent = in.conc
	small := func(n int) int { return 1 + t.Choose(simrt.KWorkload, n*scale) }
	switch in.isolated {
	case 0:
		mask := 1 + t.Choose(simrt.KWorkload, 31)
		if mask&1 != 0 {
			s.FuncEvaluations = small(40)
		}
		if mask&2 != 0 {
			s.MajorIterations = small(12)
		}
		if mask&4 != 0 && in.obj.grad != nil {
			s.GradEvaluations = small(20)
		}
		if mask&8 != 0 && in.obj.hess != nil {
			s.HessEvaluations = small(6)
		}
		if mask&16 != 0 {
			s.Runtime = time.Duration(small(2000)) * time.Millisecond
		}
		if s.FuncEvaluations == 0 && s.MajorIterations == 0 {
			// Termination is owed by contract only with a hard stop that the
			// method is sure to reach. (Objectives with a NaN / Inf region
			// used to get an evaluation limit in nearly all runs because a
			// line search over such a region never ended - finding 9,
			// repaired by efd89c9; they are now treated like all others.)
			s.FuncEvaluations = small(60)
		}
		switch t.Choose(simrt.KWorkload, 4) {
		case 1:
			s.GradientThreshold = 1e-3
		case 2:
			s.GradientThreshold = math.NaN()
		case 3:
			s.GradientThreshold = 0.5
		}
		in.convKind = t.Choose(simrt.KWorkload, 3)
		in.initVals = t.Choose(simrt.KWorkload, 4)
		in.useRec = t.Choose(simrt.KWorkload, 3)
		if in.useRec != 0 {
			switch t.Choose(simrt.KFault, 6) {
			case 4:
				in.recInitErr = true
			case 5:
				in.recErrAt = small(12)
				in.writerFail = in.recErrAt
			}
		}
		if t.Choose(simrt.KWorkload, 3) == 2 {
			in.hasStatus = true
			if t.Choose(simrt.KFault, 2) == 1 {
				in.statusAt = small(15)
				in.statusKind = 1 + t.Choose(simrt.KFault, 3)
			}
		}
	case 1:
		s.FuncEvaluations = small(40)
		s.GradientThreshold = math.NaN()
		in.convKind = 1
		in.obj.bad = 0
	case 2:
		s.MajorIterations = small(10)
		s.GradientThreshold = math.NaN()
		in.convKind = 1
		in.obj.bad = 0
	case 3:
		s.Runtime = time.Duration(small(5000)) * time.Millisecond
		s.GradientThreshold = math.NaN()
		in.convKind = 1
		in.obj.bad = 0
		in.costly = true
	case 4:
		// Default settings: no limit of any kind. The run ends when the
		// default GradientThreshold, the method's GradStopThreshold or the
		// default FunctionConverge (no improvement by 1e-10 in 100 major
		// iterations) says so; on a strictly convex quadratic, where every
		// major iteration decreases F and F is bounded below, one of them
		// must.
		in.obj.bad = 0
		in.convKind = 0
		in.nilSet = t.Choose(simrt.KWorkload, 2) == 1
		if in.nilSet {
			in.conc = 0
			s.Concurrent = 0
		} else {
			in.useRec = t.Choose(simrt.KWorkload, 2)
		}
	}
	in.fcAbs = []float64{1e-2, 1e-3, 0.5, 0}[t.Choose(simrt.KWorkload, 4)]
	in.fcRel = []float64{0, 1e-3, 0.05}[t.Choose(simrt.KWorkload, 3)]
	in.fcIter = []int{2, 1, 3, 5, 0}[t.Choose(simrt.KWorkload, 5)] // 0: "it has no effect"
	switch in.convKind {
	case 1:
		s.Converger = optimize.NeverTerminate{}
	case 2:
		s.Converger = &optimize.FunctionConverge{Absolute: in.fcAbs, Relative: in.fcRel, Iterations: in.fcIter}
	}
	if in.recErrAt > 0 && isGlobal(in.method) && in.conc >= 2 && t.Choose(simrt.KFault, 2) == 1 {
		// two terminal conditions close together: the Recorder fails on one
		// of the first evaluations while others are in flight, and the
		// evaluation limit is reached by those when they come back
		in.recErrAt = 1 + t.Choose(simrt.KFault, 4)
		in.writerFail = in.recErrAt
		s.FuncEvaluations = in.recErrAt/2 + 1 + t.Choose(simrt.KFault, in.conc)
		s.MajorIterations = 0
	}
	if in.method == mCmaEs {
		in.pop = t.Choose(simrt.KWorkload, 7) // 0 = default
		if in.pop == 1 {
			in.pop = 2
		}
		in.forgetBest = t.Choose(simrt.KWorkload, 4) == 3
		if in.isolated == 0 {
			in.cmaStop = t.Choose(simrt.KWorkload, 3)
		}
	}
	if in.method == mListSearch {
		in.rows = small(12)
		if in.rows >= 2 && in.obj.bad == 0 && t.Choose(simrt.KWorkload, 3) == 2 {
			// ties: the objective is made even (f(|x|)) and every odd row is
			// the negative of the row before it
			in.lsTies = true
			inner := in.obj.f
			in.obj.f = func(x []float64) float64 {
				y := make([]float64, len(x))
				for i, v := range x {
					y[i] = math.Abs(v)
				}
				return inner(y)
			}
			in.obj.grad, in.obj.hess = nil, nil
			in.obj.name = "(" + in.obj.name + ") of |x|"
		}
		if in.hasStatus && in.statusAt > 0 && t.Choose(simrt.KFault, 2) == 1 {
			// Problem.Status ends the run just before ListSearch hands out
			// its last rows: two terminal conditions close together
			nt := in.conc
			if nt < 1 {
				nt = 1
			}
			if t.Choose(simrt.KFault, 2) == 1 && nt >= 2 {
				// a short list: the answer comes while the last rows are
				// being handed out
				in.rows = nt + 1 + t.Choose(simrt.KFault, 2)
			}
			if in.rows-nt >= 1 {
				in.statusAt = in.rows - nt + 1 - t.Choose(simrt.KFault, 2)
				if in.statusAt < 2 {
					in.statusAt = 2 // (the first call is made before the run starts)
				}
			}
		}
	}
	if in.method == mNelderMead {
		in.nmVerts = t.Choose(simrt.KWorkload, 4) == 3
		in.nmFar = in.nmVerts && in.obj.bad == 0 && t.Choose(simrt.KWorkload, 3) == 2
	}
	in.knob = t.Choose(simrt.KWorkload, 4)
	if (in.method == mLBFGS || in.method == mNelderMead) && in.ls == 0 && in.knob == 0 && t.Choose(simrt.KWorkload, 3) == 2 {
		in.nilMethod = true
	}
	if in.method == mStub {
		in.stubCfg = drawStub(t)
	} else if !in.nilMethod && t.Choose(simrt.KWorkload, 4) == 3 {
		// method values are reusable: Init must reset whatever an earlier,
		// possibly interrupted, run left behind
		in.prime = 1 + t.Choose(simrt.KWorkload, 4)
		in.primeN = 1 + t.Choose(simrt.KWorkload, 9)
		in.primeNaN = t.Choose(simrt.KWorkload, 3) == 2
		// the earlier run may have been made from the same start with the
		// same Settings.InitValues: what the caller supplied there is the
		// caller's, and is handed to the run under test as it was
		in.primeSame = in.initVals >= 2 && t.Choose(simrt.KWorkload, 2) == 1
	}
	return in
}

func (in *minInst) describe(m map[string]interface{}) {
	m["method"] = methodNames[in.method]
	if usesLS(in.method) {
		m["linesearcher"] = []string{"default", "Backtracking", "Bisection", "MoreThuente"}[in.ls]
	}
	m["dim"] = in.dim
	m["method_knobs"] = in.knob
	m["linesearcher_knobs"] = in.lsKnob
	m["step_sizer"] = stepSizerNames[in.stepKnob]
	if in.nilMethod {
		m["method"] = "nil (default: " + methodNames[in.method] + ")"
	}
	m["objective"] = in.obj.name
	m["initX"] = fmt.Sprint(in.initX)
	m["concurrent"] = in.conc
	m["limits"] = fmt.Sprintf("func=%d major=%d grad=%d hess=%d runtime=%v", in.set.FuncEvaluations, in.set.MajorIterations, in.set.GradEvaluations, in.set.HessEvaluations, in.set.Runtime)
	m["gradient_threshold"] = fmt.Sprint(in.set.GradientThreshold)
	m["converger"] = []string{"default", "NeverTerminate", fmt.Sprintf("FunctionConverge{Absolute:%v Relative:%v Iterations:%d}", in.fcAbs, in.fcRel, in.fcIter)}[in.convKind]
	m["init_values"] = []string{"none", "F", "F+Grad", "F+Grad+Hess"}[in.initVals]
	if in.nmFar {
		m["neldermead_simplex_away_from_initX"] = true
	}
	if in.nmVerts {
		m["neldermead_initial_simplex_supplied"] = true
	}
	if in.method == mCmaEs {
		m["cmaes_stop_log_det"] = []string{"NaN", "default", "+Inf"}[in.cmaStop]
	}
	m["recorder"] = []string{"none", "harness", "Printer"}[in.useRec]
	if in.recInitErr {
		m["fault_recorder_init"] = true
	}
	if in.recErrAt > 0 {
		m["fault_record_call"] = in.recErrAt
	}
	if in.hasStatus {
		m["problem_status"] = fmt.Sprintf("at=%d kind=%d", in.statusAt, in.statusKind)
	}
	if in.prime != 0 {
		m["earlier_run_gradient_turns_nan"] = in.primeNaN
		m["earlier_run_same_start_and_init_values"] = in.primeSame
		m["method_value_reused_after"] = fmt.Sprintf("a run stopped by %s=%d", []string{"", "FuncEvaluations", "GradEvaluations", "HessEvaluations", "Problem.Status at call"}[in.prime], in.primeN)
	}
	if in.isolated != 0 {
		m["isolated_cause"] = []string{"", "FuncEvaluations", "MajorIterations", "Runtime", "none (default settings)"}[in.isolated]
		m["nil_settings"] = in.nilSet
	}
	if in.method == mCmaEs {
		m["population"] = in.pop
		m["forget_best"] = in.forgetBest
	}
	if in.method == mListSearch {
		m["rows"] = in.rows
	}
	if in.method == mStub {
		m["stub"] = fmt.Sprintf("%+v", in.stubCfg)
	}
}

// build creates fresh method / settings / problem objects for one simulation.
type minRun struct {
	in     *minInst
	log    *evalLog
	rec    *recorder
	wr     *failWriter
	method optimize.Method
	stub   *stubMethod
	prob   optimize.Problem
	set    optimize.Settings
	locs   *mat.Dense
	res    *optimize.Result
	err    error
	t0, t1 int64
	pop    int
}

func (in *minInst) build() *minRun {
	r := &minRun{in: in, log: newEvalLog(in.dim, 4096)}
	if in.isolated == 4 {
		r.log = newEvalLog(in.dim, 32768)
		r.log.limit = defaultSettingsRunaway
	}
	// Linesearchers with their zero value (defaults) or with explicit,
	// unusual but legal parameters (lsKnob): the advertised conditions are
	// the ones configured, whatever their relation to the other fields.
	var ls optimize.Linesearcher
	switch in.ls {
	case 1:
		ls = &optimize.Backtracking{DecreaseFactor: []float64{0, 0.8, 0.3, 0}[in.lsKnob], ContractionFactor: []float64{0, 0, 0.1, 0.7}[in.lsKnob]} // (0.7: a search that shrinks to rounding level takes ~110 evaluations; with 0.9 it takes 350 and a run with 30 major iterations passes the runaway bound legitimately)
	case 2:
		ls = &optimize.Bisection{CurvatureFactor: []float64{0, 0.1, 0.5, 0.99}[in.lsKnob]}
	case 3:
		// (knob 3: a bounded step interval; a search that ends at a bound
		// fails with ErrLinesearcherBound / ErrLinesearcherFailure, as documented)
		ls = &optimize.MoreThuente{DecreaseFactor: []float64{0, 0.3, 0.05, 0}[in.lsKnob], CurvatureFactor: []float64{0, 0.5, 0.1, 0}[in.lsKnob],
			MinimumStep: []float64{0, 0, 0, 1.0 / 256}[in.lsKnob], MaximumStep: []float64{0, 0, 0, 1}[in.lsKnob]}
	}
	// tuning knobs: correctness must not depend on one configuration
	gst := []float64{0, 1e-4, 0, math.NaN()}[in.knob]
	var ss optimize.StepSizer
	switch in.stepKnob {
	case 1:
		ss = optimize.ConstantStepSize{Size: 0.25}
	case 2:
		ss = &optimize.QuadraticStepSize{InitialStepFactor: 0.5, MinStepSize: 1.0 / 64, MaxStepSize: 4}
	case 3:
		ss = &optimize.FirstOrderStepSize{InitialStepFactor: 2, MinStepSize: 1.0 / 32, MaxStepSize: 2}
	case 4:
		ss = &optimize.QuadraticStepSize{}
	case 5:
		ss = &optimize.FirstOrderStepSize{}
	}
	switch in.method {
	case mGD:
		r.method = &optimize.GradientDescent{Linesearcher: ls, StepSizer: ss, GradStopThreshold: gst}
	case mCGFR:
		r.method = &optimize.CG{Linesearcher: ls, InitialStep: ss, Variant: &optimize.FletcherReeves{}, GradStopThreshold: gst, IterationRestartFactor: float64(2 * (in.knob / 2))}
	case mCGPRP:
		r.method = &optimize.CG{Linesearcher: ls, InitialStep: ss, Variant: &optimize.PolakRibierePolyak{}, GradStopThreshold: gst, IterationRestartFactor: float64(2 * (in.knob / 2))}
	case mCGHS:
		var variant optimize.CGVariant = &optimize.HestenesStiefel{}
		if in.knob == 2 {
			variant = nil // "If Variant is nil, an appropriate default is chosen"
		}
		r.method = &optimize.CG{Linesearcher: ls, InitialStep: ss, Variant: variant, GradStopThreshold: gst}
	case mCGDY:
		r.method = &optimize.CG{Linesearcher: ls, InitialStep: ss, Variant: &optimize.DaiYuan{}, GradStopThreshold: gst, AngleRestartThreshold: []float64{0, -0.5, -1, 0}[in.knob]}
	case mCGHZ:
		r.method = &optimize.CG{Linesearcher: ls, InitialStep: ss, Variant: &optimize.HagerZhang{}, GradStopThreshold: gst, AngleRestartThreshold: []float64{0, -0.5, -1, 0}[in.knob]}
	case mBFGS:
		r.method = &optimize.BFGS{Linesearcher: ls, GradStopThreshold: gst}
	case mLBFGS:
		r.method = &optimize.LBFGS{Linesearcher: ls, GradStopThreshold: gst, Store: []int{0, 1, 3, 0}[in.knob]}
	case mNewton:
		r.method = &optimize.Newton{Linesearcher: ls, GradStopThreshold: gst, Increase: []float64{0, 5, 2, 0}[in.knob]}
	case mNelderMead:
		nm := &optimize.NelderMead{SimplexSize: []float64{0, 1, 0.25, 0}[in.knob]}
		if in.nmVerts {
			// a supplied initial simplex: the initial point and one step of
			// 1/2 or -1/4 along every axis, with their exact values
			for i := 0; i <= in.dim; i++ {
				v := append([]float64(nil), in.initX...)
				if in.nmFar {
					for j := range v {
						v[j] += 6
					}
				}
				if i > 0 {
					v[i-1] += []float64{0.5, -0.25}[(i+int(in.seed))%2]
				}
				nm.InitialVertices = append(nm.InitialVertices, v)
				nm.InitialValues = append(nm.InitialValues, in.obj.F(v))
				r.log.supplied = append(r.log.supplied, v)
			}
		}
		r.method = nm
	case mCmaEs:
		cma := &optimize.CmaEsChol{Population: in.pop, ForgetBest: in.forgetBest, StopLogDet: []float64{math.NaN(), 0, math.Inf(1)}[in.cmaStop], Src: rand.NewPCG(in.seed, 77), InitStepSize: []float64{0, 0.5, 2, 0}[in.knob]}
		if in.knob == 3 {
			// a supplied initial covariance: diag(4, 1, 1/4, ...)
			cov := mat.NewSymDense(in.dim, nil)
			for i := 0; i < in.dim; i++ {
				cov.SetSym(i, i, math.Ldexp(4, -2*i))
			}
			var ch mat.Cholesky
			ch.Factorize(cov)
			cma.InitCholesky = &ch
		}
		r.method = cma
		r.pop = in.pop
		if r.pop == 0 {
			r.pop = 4 + int(3*math.Log(float64(in.dim)))
		}
	case mGuessAndCheck:
		r.method = &optimize.GuessAndCheck{Rander: &boxRander{rand.New(rand.NewPCG(in.seed, 99))}}
	case mListSearch:
		g := rand.New(rand.NewPCG(in.seed, 55))
		r.locs = mat.NewDense(in.rows, in.dim, nil)
		for i := 0; i < in.rows; i++ {
			for j := 0; j < in.dim; j++ {
				r.locs.Set(i, j, math.Round((g.Float64()*8-4)*16)/16)
			}
		}
		if in.lsTies {
			for i := 1; i < in.rows; i += 2 {
				for j := 0; j < in.dim; j++ {
					r.locs.Set(i, j, -r.locs.At(i-1, j))
				}
			}
		}
		r.method = &optimize.ListSearch{Locs: r.locs}
	case mStub:
		r.stub = newStub(in.stubCfg, in.dim, in.seed, in.obj.grad != nil)
		r.method = r.stub
	}
	o := in.obj
	log := r.log
	costly := in.costly
	r.prob.Func = func(x []float64) float64 {
		log.enter()
		if log.runaway() {
			if in.isolated == 4 && log.firstBad != 2 && !log.stalled(200) && log.nFunc-log.lastImprove < 5000 {
				// No limit is configured and the run is still moving (distinct
				// finite points, a new lowest F within the last 5000
				// evaluations): slow convergence is not nontermination. CG
				// with Backtracking zigzags for > 10^5 evaluations on some of
				// the quadratics, lowering F a little every iteration. No
				// verdict.
				simrt.Fail("inconclusive/slow-convergence: still making progress after the callback budget")
			}
			kind := "finite-objective"
			if !log.allFinite() {
				kind = "non-finite-objective"
				if log.firstBad == 2 {
					// every value and gradient was finite until the
					// method itself produced a NaN or Inf location
					kind = "method-produced-non-finite-location"
				}
			}
			if usesLS(in.method) {
				kind = "linesearch/" + kind
			}
			if log.allFinite() && log.stalled(200) {
				kind += "/same-point-re-evaluated-forever"
				if usesLS(in.method) {
					// name the line searcher in effect: the known stall is
					// MoreThuente's (also CG's default)
					ls := []string{"", "Backtracking", "Bisection", "MoreThuente"}[in.ls]
					if ls == "" {
						switch {
						case in.method == mGD:
							ls = "Backtracking"
						case in.method >= mCGFR && in.method <= mCGHZ:
							ls = "MoreThuente"
						default:
							ls = "Bisection"
						}
					}
					kind += "/" + ls
				}
			}
			simrt.Fail(fmt.Sprintf("nontermination/%s: %s: more than %d objective callbacks (%d func, %d grad) without Minimize stopping; limits %s", kind, methodNames[in.method], log.limit, log.nFunc, log.nGrad,
				fmt.Sprintf("func=%d major=%d grad=%d hess=%d runtime=%v", in.set.FuncEvaluations, in.set.MajorIterations, in.set.GradEvaluations, in.set.HessEvaluations, in.set.Runtime)))
		}
		perturb()
		if costly {
			simrt.Sleep(time.Duration(1+simrt.Choose(simrt.KCost, 500)) * time.Millisecond)
		}
		f := o.F(x)
		log.recFunc(x, f)
		log.leave()
		return f
	}
	needGrad := in.method <= mNewton || (in.method == mStub && o.grad != nil)
	if needGrad {
		r.prob.Grad = func(g, x []float64) {
			log.enter()
			perturb()
			o.Grad(g, x)
			log.note(x, g...)
			log.incGrad()
			log.leave()
		}
	}
	if in.method == mNewton {
		r.prob.Hess = func(h *mat.SymDense, x []float64) {
			log.enter()
			perturb()
			o.hess(h, x)
			log.incHess()
			log.leave()
		}
	}
	if in.hasStatus {
		at, kind := in.statusAt, in.statusKind
		r.prob.Status = func() (optimize.Status, error) {
			k := log.incStatus()
			if at > 0 && k >= at {
				switch kind {
				case 1:
					return optimize.Success, nil
				case 3:
					return harnessStatus, nil
				}
				return optimize.Failure, errInjected
			}
			return optimize.NotTerminated, nil
		}
	}
	r.set = in.set
	switch in.convKind {
	case 2:
		r.set.Converger = &optimize.FunctionConverge{Absolute: in.fcAbs, Relative: in.fcRel, Iterations: in.fcIter}
	}
	if in.initVals > 0 {
		iv := &optimize.Location{F: o.F(in.initX)}
		if in.initVals >= 2 && (r.prob.Grad != nil || o.grad != nil) {
			// (a method that does not use gradients may be handed one all
			// the same - "other fields may be specified" - and it must not
			// influence the run)
			iv.Gradient = make([]float64, in.dim)
			o.Grad(iv.Gradient, in.initX)
		}
		if in.initVals >= 3 && (r.prob.Hess != nil || o.hess != nil) && iv.Gradient != nil {
			iv.Hessian = mat.NewSymDense(in.dim, nil)
			o.hess(iv.Hessian, in.initX)
		}
		r.set.InitValues = iv
	}
	switch in.useRec {
	case 1:
		r.rec = &recorder{initErr: in.recInitErr, errAt: in.recErrAt}
		r.set.Recorder = r.rec
	case 2:
		r.wr = &failWriter{failAt: in.writerFail}
		if in.recInitErr {
			r.wr.failAt = 1
		}
		r.set.Recorder = &optimize.Printer{Writer: r.wr, HeadingInterval: 3, ValueInterval: time.Duration(simrtChooseOutside(in.seed)%3) * time.Millisecond}
	}
	return r
}

func simrtChooseOutside(seed uint64) uint64 { return seed >> 7 }

// primeMethod runs a first, interrupted Minimize with the method value that
// the run under test will reuse. Its callbacks are not logged.
func (r *minRun) primeMethod() {
	in := r.in
	o := in.obj
	p := optimize.Problem{Func: func(x []float64) float64 { return o.F(x) }}
	if r.prob.Grad != nil {
		p.Grad = func(g, x []float64) { o.Grad(g, x) }
		if in.primeNaN {
			// the earlier problem's gradient turns NaN after a few
			// evaluations while its value stays finite: that run fails, and
			// nothing of it may survive the next Init
			k := 0
			p.Grad = func(g, x []float64) {
				o.Grad(g, x)
				if k++; k > 2 {
					for i := range g {
						g[i] = math.NaN()
					}
				}
			}
		}
	}
	if r.prob.Hess != nil {
		p.Hess = func(h *mat.SymDense, x []float64) { o.hess(h, x) }
	}
	set := optimize.Settings{Concurrent: in.conc, FuncEvaluations: 200, Converger: optimize.NeverTerminate{}}
	if in.primeNaN {
		set.FuncEvaluations, set.GradEvaluations, set.HessEvaluations = 200, 0, 0
	}
	switch in.prime {
	case 1:
		set.FuncEvaluations = in.primeN
	case 2:
		if p.Grad != nil {
			set.GradEvaluations = in.primeN
		}
	case 3:
		if p.Hess != nil {
			set.HessEvaluations = in.primeN
		}
	case 4:
		k := 0
		p.Status = func() (optimize.Status, error) {
			k++
			if k > in.primeN {
				return optimize.Success, nil
			}
			return optimize.NotTerminated, nil
		}
	}
	x := make([]float64, in.dim)
	for i := range x {
		x[i] = in.initX[i] + 0.5
	}
	if in.primeSame && r.set.InitValues != nil {
		copy(x, in.initX)
		set.InitValues = r.set.InitValues
	}
	// exported tuning fields may be changed between two runs of one method
	// value: the first run uses the defaults, the run under test the knobs
	if m, ok := r.method.(*optimize.LBFGS); ok {
		store := m.Store
		m.Store = 0
		defer func() { m.Store = store }()
	}
	if m, ok := r.method.(*optimize.NelderMead); ok {
		size := m.SimplexSize
		m.SimplexSize = 0
		defer func() { m.SimplexSize = size }()
	}
	optimize.Minimize(p, x, &set, r.method)
}

func (r *minRun) run() {
	if r.in.prime != 0 {
		r.primeMethod()
	}
	r.t0 = simrt.Elapsed()
	x := append([]float64(nil), r.in.initX...)
	method := r.method
	if r.in.nilMethod {
		method = nil
	}
	set := &r.set
	if r.in.nilSet {
		set = nil
	}
	r.res, r.err = optimize.Minimize(r.prob, x, set, method)
	r.t1 = simrt.Elapsed()
}

func init() {
	register(&Scenario{Name: "minimize", Props: []string{"C09", "C19"}, Weight: map[string]int{"C19": 7}, Run: runMinimize})
}

func sameBits(a, b []float64) bool {
	if len(a) != len(b) {
		return false
	}
	for i := range a {
		if math.Float64bits(a[i]) != math.Float64bits(b[i]) {
			return false
		}
	}
	return true
}

// activeProp is set by main from -prop: the minimize scenario serves C09 and
// C19 and evaluates the oracles of the property being checked.
var activeProp = "C19"

func runMinimize(t *simrt.Tape, rc *RunCtx) *Violation {
	in := drawMinimize(t)
	in.describe(rc.Instance)
	prop := activeProp
	c19 := prop == "C19"
	if c19 {
		rc.declare("recorder_error_injected", "status_callback_terminated_run", "runtime_limit_hit")
	}
	rc.declare("listsearch_minimum_attained_by_several_rows", "start_at_stationary_point", "method_value_reused", "limit_overshoot_by_concurrency", "result_nil_early_error", "nan_or_inf_objective_hit", "method_done_with_tasks_in_flight", "trailing_major_iterations", "init_values_used", "isolated_cause_run", "default_settings_run_abandoned_still_converging",
		"concurrent_evaluations_overlapped", "tiny_limit_below_one_generation")

	single := !isGlobal(in.method) // one task token circulates
	// Baseline (FIFO, zero tape) for schedule independence of single-task methods.
	var base *minRun
	timeFree := in.set.Runtime == 0 && in.useRec != 2
	if single && timeFree {
		base = in.build()
		_, v := rc.Sim(prop, simrt.ReplayTape(nil), baselineConfig(), base.run)
		if v != nil && strings.HasPrefix(v.Oracle, "minimize/inconclusive/") {
			rc.probe("default_settings_run_abandoned_still_converging", 1)
			return nil
		}
		if v != nil {
			v.Msg = "[in the FIFO baseline simulation] " + v.Msg
			return v
		}
	}

	cfg := drawConfig(t, 400)
	cfg.MaxSteps = 400000
	if in.isolated == 4 {
		cfg.MaxSteps = 40 * defaultSettingsRunaway
	}
	rc.Instance["policy"] = cfg.Policy.String()
	rc.Instance["gomaxprocs"] = cfg.GOMAXPROCS
	r := in.build()
	_, v := rc.Sim(prop, t, cfg, r.run)
	if v != nil && strings.HasPrefix(v.Oracle, "minimize/inconclusive/") {
		rc.probe("default_settings_run_abandoned_still_converging", 1)
		return nil
	}
	if v != nil {
		return v
	}
	name := methodNames[in.method]
	res, err, log := r.res, r.err, r.log
	rc.hist("method=" + name)
	rc.hist("objective=" + strings.SplitN(strings.SplitN(in.obj.name, "(", 2)[0], "+", 2)[0])
	if usesLS(in.method) {
		rc.hist("linesearcher=" + []string{"default", "Backtracking", "Bisection", "MoreThuente"}[in.ls])
	}
	rc.hist(fmt.Sprintf("concurrent=%d", in.conc))
	if in.prime != 0 {
		rc.probe("method_value_reused", 1)
	}
	if res != nil {
		rc.hist("status=" + res.Status.String())
	}
	if err != nil {
		rc.hist("returned_error")
	}
	if log.overflow {
		return nil // more evaluations than the log holds: nothing further is asserted
	}
	nTasks := in.conc
	if nTasks == 0 {
		nTasks = 1
	}
	switch {
	case single && in.method != mStub:
		nTasks = 1
	case in.method == mCmaEs && nTasks > r.pop:
		nTasks = r.pop
	case in.method == mListSearch && nTasks > in.rows:
		nTasks = in.rows
	case in.method == mStub:
		nTasks = r.stub.nTasks
	}
	if log.maxIn > 1 {
		rc.probe("concurrent_evaluations_overlapped", 1)
	}
	// callback faults that actually fired in this run
	if r.rec != nil {
		if r.rec.initErr {
			rc.fault("callback.recorder_init_error", 1)
		}
		if r.rec.failed > 0 {
			rc.fault("callback.recorder_record_error", 1)
		}
	}
	if r.wr != nil && r.wr.failed {
		rc.fault("callback.printer_writer_error", 1)
	}
	if in.hasStatus && in.statusAt > 0 && log.nStatus >= in.statusAt {
		if in.statusKind == 1 || in.statusKind == 3 {
			rc.fault("callback.problem_status_terminal", 1)
		} else {
			rc.fault("callback.problem_status_error", 1)
		}
	}
	if !log.allFinite() {
		rc.fault("callback.objective_returned_nan_or_inf", 1)
	}
	if in.initVals > 0 {
		rc.probe("init_values_used", 1)
	}
	if in.isolated != 0 {
		rc.probe("isolated_cause_run", 1)
	}
	if !log.allFinite() {
		rc.probe("nan_or_inf_objective_hit", 1)
	}
	if in.method == mCmaEs && in.set.FuncEvaluations > 0 && in.set.FuncEvaluations < r.pop {
		rc.probe("tiny_limit_below_one_generation", 1)
	}
	if r.stub != nil {
		rc.probe("method_done_with_tasks_in_flight", r.stub.doneInFlight)
		rc.probe("trailing_major_iterations", r.stub.trailingMajors)
	}

	// C09 (d): simultaneous evaluations never exceed the number of tasks
	rc.oracle("max-in-flight")
	if log.maxIn > nTasks {
		return &Violation{prop, "minimize/max-in-flight", fmt.Sprintf("%s: %d objective callbacks in flight at once with Concurrent=%d (%d tasks)", name, log.maxIn, in.conc, nTasks)}
	}

	if res == nil {
		rc.probe("result_nil_early_error", 1)
		rc.oracle("early-error")
		if err == nil {
			return &Violation{prop, "minimize/nil-result-nil-error", name + ": Minimize returned (nil, nil)"}
		}
		if !errors.Is(err, errInjected) {
			return &Violation{prop, "minimize/unexpected-early-error", fmt.Sprintf("%s: Minimize returned nil result with error %v that was not injected", name, err)}
		}
		return nil
	}

	// Oracle 2 (C19) / conservation (C09 c): counters equal the callbacks made
	rc.oracle("counters")
	st := res.Stats
	if st.FuncEvaluations != log.nFunc || st.GradEvaluations != log.nGrad || st.HessEvaluations != log.nHess {
		return &Violation{prop, "minimize/counters", fmt.Sprintf("%s: Stats{Func:%d Grad:%d Hess:%d} but the callbacks made were Func:%d Grad:%d Hess:%d (Concurrent=%d, status %v, err %v)",
			name, st.FuncEvaluations, st.GradEvaluations, st.HessEvaluations, log.nFunc, log.nGrad, log.nHess, in.conc, res.Status, err)}
	}
	if r.stub != nil {
		rc.oracle("stub-conservation")
		if v := r.stub.check(prop, log, st); v != nil {
			return v
		}
	}

	// Oracle 4: limits respected up to the concurrency slack nTasks-1
	rc.oracle("limits")
	slack := nTasks - 1
	over := func(kind string, count, limit int) *Violation {
		if limit > 0 && count > limit {
			rc.probe("limit_overshoot_by_concurrency", 1)
			if count > limit+slack {
				return &Violation{prop, "minimize/limit-" + kind, fmt.Sprintf("%s: %d %s evaluations made, limit %d, %d task(s) in circulation: overshoot %d exceeds the concurrency slack %d",
					name, count, kind, limit, nTasks, count-limit, slack)}
			}
		}
		return nil
	}
	if v := over("func", log.nFunc, in.set.FuncEvaluations); v != nil {
		return v
	}
	if v := over("grad", log.nGrad, in.set.GradEvaluations); v != nil {
		return v
	}
	if v := over("hess", log.nHess, in.set.HessEvaluations); v != nil {
		return v
	}
	if in.method != mStub && in.set.MajorIterations > 0 && st.MajorIterations > in.set.MajorIterations+slack+1 {
		return &Violation{prop, "minimize/limit-major", fmt.Sprintf("%s: %d major iterations, limit %d, %d task(s)", name, st.MajorIterations, in.set.MajorIterations, nTasks)}
	}

	if c19 {
		if v := checkC19(rc, in, r, nTasks); v != nil {
			return v
		}
	} else {
		if v := checkListSearchTies(rc, prop, in, r); v != nil {
			return v
		}
		if v := checkRecorderErrorReported(rc, prop, in, r); v != nil {
			return v
		}
		// C09 "always terminate": a run that has returned does not report
		// itself as not terminated
		rc.oracle("terminated-status")
		if res.Status == optimize.NotTerminated {
			return &Violation{prop, "minimize/status/NotTerminated", fmt.Sprintf("%s with Concurrent=%d returned with status NotTerminated (err %v)", name, in.conc, err)}
		}
		if v := checkSerialAnswer(rc, in, r); v != nil {
			return v
		}
	}

	// Oracle 8 / C09 (e): schedule independence of single-task methods
	if base != nil && in.method != mStub {
		rc.oracle("schedule-independence")
		b := base
		same := (b.res == nil) == (res == nil) && fmt.Sprint(b.err) == fmt.Sprint(err)
		if same && res != nil {
			bs, rs := b.res.Stats, res.Stats
			bs.Runtime, rs.Runtime = 0, 0
			same = b.res.Status == res.Status && bs == rs && sameBits(b.res.X, res.X) && math.Float64bits(b.res.F) == math.Float64bits(res.F)
		}
		if !same {
			return &Violation{prop, "minimize/schedule-dependence", fmt.Sprintf("%s circulates a single task, yet the result depends on the schedule: baseline {X:%v F:%v %v %+v err:%v}, this schedule {X:%v F:%v %v %+v err:%v}",
				name, b.res.X, b.res.F, b.res.Status, b.res.Stats, b.err, res.X, res.F, res.Status, res.Stats, err)}
		}
	}
	return nil
}

// checkRecorderErrorReported is an oracle of C09 and C19: with Concurrent > 1
// the results in flight when the Recorder failed must not relabel the run.
func checkRecorderErrorReported(rc *RunCtx, prop string, in *minInst, r *minRun) *Violation {
	res, err := r.res, r.err
	name := methodNames[in.method]
	if res == nil {
		return nil
	}
	// An injected Recorder failure must come back as an error unless the run
	// had already been stopped by something else (the first terminal
	// condition wins; Record is still called for tasks that arrive later and
	// its error is then dropped). Decidable from outside when the returned
	// status names a limit: if that limit was not yet reached in the Stats
	// handed to the failing Record call, the failure came first.
	rc.oracle("callback-error-reported")
	if err == nil && r.rec != nil && r.rec.failed > 0 && r.rec.failed <= len(r.rec.entries) {
		at := r.rec.entries[r.rec.failed-1].stats
		reached := true
		switch res.Status {
		case optimize.FunctionEvaluationLimit:
			reached = at.FuncEvaluations >= in.set.FuncEvaluations
		case optimize.GradientEvaluationLimit:
			reached = at.GradEvaluations >= in.set.GradEvaluations
		case optimize.HessianEvaluationLimit:
			reached = at.HessEvaluations >= in.set.HessEvaluations
		case optimize.IterationLimit:
			reached = at.MajorIterations >= in.set.MajorIterations
		}
		if !reached {
			return &Violation{prop, "minimize/recorder-error-swallowed", fmt.Sprintf("%s: Recorder.Record failed at call %d, when the Stats were %+v, yet Minimize returned err=nil with status %v, a limit that had not been reached at that moment", name, r.rec.failed, at, res.Status)}
		}
	}
	return nil
}

// checkSerialAnswer is C09 (e): concurrent optimizer evaluation returns the
// serial answer.
func checkSerialAnswer(rc *RunCtx, in *minInst, r *minRun) *Violation {
	const prop = "C09"
	res, err, log := r.res, r.err, r.log
	if err != nil || !log.allFinite() || log.n == 0 {
		return nil
	}
	name := methodNames[in.method]
	min := log.minValue()
	switch in.method {
	case mListSearch, mGuessAndCheck:
		rc.oracle("serial-answer")
		if res.F != min {
			return &Violation{prop, "minimize/serial-answer/" + name, fmt.Sprintf("%s with Concurrent=%d returned F=%v but the minimum over the %d evaluations made is %v", name, in.conc, res.F, log.n, min)}
		}
	case mCmaEs:
		if in.forgetBest || log.nFunc < r.pop {
			return nil // ForgetBest reports the last generation; first-generation stops are finding C19/cmaes
		}
		if res.Status == optimize.MethodConverge || res.Stats.MajorIterations == 0 {
			// When CmaEsChol ends the run itself (StopLogDet) it sends the
			// best location with MethodDone, which Minimize does not record:
			// the last generation is not in the Result, serially or
			// concurrently. The minimum over all evaluations is then not the
			// serial answer either.
			return nil
		}
		rc.oracle("serial-answer")
		if res.F != min {
			return &Violation{prop, "minimize/serial-answer/" + name, fmt.Sprintf("%s with Concurrent=%d returned F=%v but the minimum over the %d evaluations made is %v", name, in.conc, res.F, log.n, min)}
		}
	}
	return nil
}

func tailF(fs []float64) []float64 {
	if len(fs) > 12 {
		return fs[len(fs)-12:]
	}
	return fs
}

func allZero(x []float64) bool {
	for _, v := range x {
		if v != 0 {
			return false
		}
	}
	return true
}

func gradNormInf(o *objective, x []float64) float64 {
	g := make([]float64, len(x))
	o.Grad(g, x)
	var m float64
	for _, v := range g {
		if a := math.Abs(v); a > m || math.IsNaN(a) {
			m = a
		}
	}
	return m
}

// checkListSearchTies: see the comment inside. Used for C19 (a coherent
// result) and for C09 (the serial answer whatever the schedule).
func checkListSearchTies(rc *RunCtx, prop string, in *minInst, r *minRun) *Violation {
	if r.res == nil {
		return nil
	}
	// ListSearch with several rows attaining the minimum: the answer is the
	// one a single task gives, the first such row of the list among the rows
	// evaluated, whatever order the results came back in ("results do not
	// depend on goroutine scheduling")
	if r.err == nil && in.method == mListSearch && in.lsTies && r.locs != nil && !r.log.overflow && r.log.n > 0 && r.res.Stats.MajorIterations > 0 && in.prime == 0 {
		rc.oracle("listsearch-first-of-ties")
		evaluated := func(row []float64) bool {
			for k := 0; k < r.log.n; k++ {
				same := true
				for j := 0; j < in.dim; j++ {
					same = same && math.Float64bits(r.log.xs[k*in.dim+j]) == math.Float64bits(row[j])
				}
				if same {
					return true
				}
			}
			return false
		}
		min := r.log.minValue()
		first, ties := -1, 0
		for i := 0; i < in.rows; i++ {
			row := mat.Row(nil, i, r.locs)
			if evaluated(row) && in.obj.f(row) == min {
				ties++
				if first < 0 {
					first = i
				}
			}
		}
		if ties >= 2 {
			rc.probe("listsearch_minimum_attained_by_several_rows", 1)
			want := mat.Row(nil, first, r.locs)
			for j := range want {
				if math.Float64bits(want[j]) != math.Float64bits(r.res.X[j]) {
					return &Violation{prop, "minimize/listsearch/tie-broken-by-arrival-order", fmt.Sprintf("ListSearch: %d evaluated rows attain the minimum %v; the first of them in the list is row %d = %v, Result.X = %v (Concurrent=%d, status %v)", ties, min, first, want, r.res.X, in.conc, r.res.Status)}
				}
			}
		}
	}

	return nil
}

// checkC19 evaluates oracles 3, 5, 6 of DESIGN.md section 7.
func checkC19(rc *RunCtx, in *minInst, r *minRun, nTasks int) *Violation {
	const prop = "C19"
	res, err, log := r.res, r.err, r.log
	name := methodNames[in.method]
	st := res.Stats
	class := "global"
	if isLocal(in.method) {
		class = "local"
	}
	if in.method == mStub {
		class = "stub"
	}

	// Oracle 3: coherence of the reported optimum
	if err == nil {
		rc.oracle("coherence")
		situation := ""
		switch {
		case math.IsInf(log.minValue(), 1):
			// no evaluation so far returned a finite value or -Inf
			situation = "/all-evaluations-non-finite"
			if !math.IsInf(res.F, 1) {
				// the known finding is the method's placeholder best value
				// (+Inf, with whatever X the location held) being
				// announced; any other F is something else
				situation = "/all-evaluations-non-finite/not-the-placeholder"
			}
		case in.method == mCmaEs && log.nFunc < r.pop:
			situation = "/cmaes-first-generation"
		}
		want := in.obj.F(res.X)
		if st.MajorIterations == 0 && math.IsInf(res.F, 1) && allZero(res.X) && !(math.IsInf(want, 1) && log.evaluatedAt(res.X)) {
			return &Violation{prop, "minimize/coherence/placeholder-result/no-major-iteration", fmt.Sprintf("%s: stopped before the first MajorIteration (status %v after %d func evaluations, Concurrent=%d) and returned the placeholder X=%v, F=+Inf with err=nil; the objective at X is %v",
				name, res.Status, log.nFunc, in.conc, res.X, want)}
		}
		if math.Float64bits(want) != math.Float64bits(res.F) {
			return &Violation{prop, "minimize/coherence/" + class + situation, fmt.Sprintf("%s: Result.F=%v but the objective at Result.X=%v is %v (status %v, %d func evaluations, %d major iterations, Concurrent=%d)",
				name, res.F, res.X, want, res.Status, log.nFunc, st.MajorIterations, in.conc)}
		}
		// a gradient-based method announces locations whose gradient (and,
		// for Newton, Hessian) was evaluated at that X
		if usesLS(in.method) && !in.nilMethod && in.obj.bad == 0 && res.Gradient != nil && st.MajorIterations > 0 {
			g := make([]float64, in.dim)
			in.obj.grad(g, res.X)
			if !sameBits(g, res.Gradient) {
				return &Violation{prop, "minimize/coherence/gradient/" + class, fmt.Sprintf("%s: Result.Gradient=%v is not the gradient at Result.X=%v, which is %v (status %v, %d func / %d grad evaluations, init values %d)",
					name, res.Gradient, res.X, g, res.Status, st.FuncEvaluations, st.GradEvaluations, in.initVals)}
			}
			if in.method == mNewton && res.Hessian != nil && in.obj.hess != nil {
				h := mat.NewSymDense(in.dim, nil)
				in.obj.hess(h, res.X)
				if !mat.Equal(h, res.Hessian) {
					return &Violation{prop, "minimize/coherence/hessian/" + class, fmt.Sprintf("%s: Result.Hessian is not the Hessian at Result.X=%v (status %v)", name, res.X, res.Status)}
				}
			}
		}
		evaluated := log.evaluatedAt(res.X) || (in.initVals > 0 && sameBits(res.X, in.initX))
		if !evaluated {
			return &Violation{prop, "minimize/coherence/" + class + situation, fmt.Sprintf("%s: Result.X=%v (F=%v) is not a point the objective was evaluated at (%d evaluations, status %v)", name, res.X, res.F, log.nFunc, res.Status)}
		}
		if isLocal(in.method) {
			f0 := in.obj.F(in.initX)
			// NaN is worse than any value the start could have
			if !math.IsNaN(f0) && (math.IsNaN(res.F) || res.F > f0) {
				if math.IsNaN(res.F) {
					// where did the NaN enter? (the first dim+1 evaluations of
					// NelderMead build its initial simplex)
					class += "/" + name + "/nan-result"
					early := in.dim + 1
					if in.initVals > 0 {
						early = in.dim
					}
					for k := 0; k < log.n && k < early; k++ {
						if in.method == mNelderMead && math.IsNaN(log.fs[k]) {
							class = "local/NelderMead/nan-vertex-in-initial-simplex"
						}
					}
				}
				if in.method == mNelderMead && in.nmFar && !math.IsNaN(res.F) {
					// known finding 56: the initial point is announced and then
					// forgotten when a simplex that does not hold it is supplied
					class += "/NelderMead/user-simplex-without-the-initial-point"
				}
				return &Violation{prop, "minimize/coherence-no-worse-than-start/" + class, fmt.Sprintf("%s: Result.F=%v is worse than the initial point's %v", name, res.F, f0)}
			}
		}
		// The sampling methods keep the best of everything evaluated: by the
		// shutdown protocol every evaluation result, including the ones that
		// arrive after the stop, is handed back to the method before results
		// is closed, and the method may still announce MajorIterations then
		// (minimize.go, "Algorithmic Overview"). So the optimum reported for
		// GuessAndCheck and ListSearch is the minimum over all Func callbacks
		// made, whatever the schedule.
		// NaN evaluations do not count: a NaN is never better than a number.
		if (in.method == mGuessAndCheck || in.method == mListSearch) && !math.IsInf(log.minValue(), 1) && !log.overflow && log.n > 0 && st.MajorIterations > 0 {
			if min := log.minValue(); !(res.F <= min) {
				return &Violation{prop, "minimize/coherence/best-of-evaluated/" + name, fmt.Sprintf("%s: Result.F=%v at X=%v, but the objective was evaluated to %v during the run (%d evaluations, status %v, Concurrent=%d): the method did not keep, or did not announce, the best value it was handed",
					name, res.F, res.X, min, log.nFunc, res.Status, in.conc)}
			}
		}
	}

	if v := checkListSearchTies(rc, prop, in, r); v != nil {
		return v
	}

	// Oracle 5: the status names the cause (soundness)
	rc.oracle("status-soundness")
	bad := func(why string) *Violation {
		return &Violation{prop, "minimize/status/" + res.Status.String(), fmt.Sprintf("%s: status %v but %s (Stats %+v, limits func=%d grad=%d hess=%d major=%d runtime=%v, err %v)",
			name, res.Status, why, st, in.set.FuncEvaluations, in.set.GradEvaluations, in.set.HessEvaluations, in.set.MajorIterations, in.set.Runtime, err)}
	}
	switch res.Status {
	case optimize.NotTerminated:
		return bad("Minimize returned")
	case optimize.FunctionEvaluationLimit:
		if in.set.FuncEvaluations <= 0 || st.FuncEvaluations < in.set.FuncEvaluations {
			return bad("the function evaluation limit was not reached")
		}
	case optimize.GradientEvaluationLimit:
		if in.set.GradEvaluations <= 0 || st.GradEvaluations < in.set.GradEvaluations {
			return bad("the gradient evaluation limit was not reached")
		}
	case optimize.HessianEvaluationLimit:
		if in.set.HessEvaluations <= 0 || st.HessEvaluations < in.set.HessEvaluations {
			return bad("the Hessian evaluation limit was not reached")
		}
	case optimize.IterationLimit:
		if in.set.MajorIterations <= 0 || st.MajorIterations < in.set.MajorIterations {
			return bad("the iteration limit was not reached")
		}
	case optimize.RuntimeLimit:
		rc.probe("runtime_limit_hit", 1)
		if in.set.Runtime <= 0 || time.Duration(r.t1-r.t0) < in.set.Runtime {
			return bad(fmt.Sprintf("only %v of simulated time elapsed", time.Duration(r.t1-r.t0)))
		}
	case optimize.GradientThreshold:
		// Settings.GradientThreshold (if positive) is applied by Minimize at
		// MajorIterations; local methods also apply their own
		// GradStopThreshold, which the harness leaves at its default 1e-12.
		// (default 1e-12, knob 1: 1e-4, knob 3: NaN = test switched off;
		// NelderMead passes NaN, the global methods have none).
		th := math.Inf(-1)
		if sv := in.set.GradientThreshold; sv > 0 && !in.nilSet {
			th = sv // 0 (the default) and NaN: not checked by Minimize
		}
		if usesLS(in.method) || (in.nilMethod && in.obj.grad != nil) {
			switch in.knob {
			case 1:
				th = math.Max(th, 1e-4)
			case 3:
			default:
				th = math.Max(th, 1e-12)
			}
		}
		if math.IsInf(th, -1) {
			return bad("neither Settings.GradientThreshold nor the method's GradStopThreshold is in effect (both NaN)")
		}
		// With several tasks in circulation MajorIterations that arrive after
		// the terminating one still move the reported optimum, so the gradient
		// at the final X says nothing about the iteration that stopped the
		// run: checked for single-task runs only.
		if err == nil && nTasks == 1 {
			if n := gradNormInf(in.obj, res.X); !(n < th) {
				return bad(fmt.Sprintf("the gradient norm at X is %v, threshold %v", n, th))
			}
		}
	case optimize.FunctionConvergence:
		if in.convKind == 1 {
			return bad("the Converger is NeverTerminate")
		}
	case optimize.FunctionNegativeInfinity:
		if !math.IsInf(res.F, -1) {
			return bad(fmt.Sprintf("F=%v", res.F))
		}
	case optimize.Success:
		if !(in.hasStatus && in.statusKind == 1 && log.nStatus >= in.statusAt && in.statusAt > 0) {
			return bad("Problem.Status never returned it")
		}
		rc.probe("status_callback_terminated_run", 1)
	case optimize.MethodConverge:
		if in.method != mListSearch && in.method != mStub && in.method != mCmaEs {
			return bad("the method has no convergence criterion of its own")
		}
		if in.method == mCmaEs && in.cmaStop == 0 {
			return bad("CmaEsChol.StopLogDet is NaN, which switches its convergence criterion off")
		}
		// ListSearch ends itself once every row has been handed out; at that
		// moment at most nTasks-1 evaluations are outstanding, and Problem.Status
		// is asked once per finished evaluation. A terminal answer of
		// Problem.Status at a call before that came first, and the first
		// terminal condition is the one that names the run.
		// (Problem.Status is also asked once before the run: when the method
		// can first end itself, 1 + rows-(nTasks-1) answers have been given)
		if in.method == mListSearch && in.hasStatus && in.statusAt > 0 && in.statusAt <= in.rows-nTasks+1 && in.prime == 0 {
			return bad(fmt.Sprintf("Problem.Status ended the run at its call %d (of one call per evaluation, %d rows, %d tasks), before ListSearch could have handed out its last row; its answer was dropped", in.statusAt, in.rows, nTasks))
		}
	case optimize.Failure:
		if err == nil {
			return bad("no error was returned")
		}
	case harnessStatus:
		if !(in.hasStatus && in.statusKind == 3 && log.nStatus >= in.statusAt && in.statusAt > 0) {
			return bad("Problem.Status never returned it")
		}
		if res.Status.String() != "HarnessStop" || !res.Status.Early() || res.Status.Err() != nil {
			return bad(fmt.Sprintf("a status registered as NewStatus(\"HarnessStop\", true, nil) reads back as %q, Early %v, Err %v", res.Status.String(), res.Status.Early(), res.Status.Err()))
		}
		rc.probe("status_callback_terminated_run", 1)
	}
	if err != nil {
		rc.oracle("error-origin")
		injected := errors.Is(err, errInjected)
		if injected {
			rc.probe("recorder_error_injected", 1)
			possible := in.recInitErr || in.recErrAt > 0 || in.writerFail > 0 || (in.hasStatus && in.statusKind == 2)
			if !possible {
				return &Violation{prop, "minimize/error-origin", name + ": the injected error came back although no fault was injected"}
			}
		}
		// An error from the final PostIteration record comes back with the
		// status that stopped the run; any other error must come with Failure.
		onPost := (r.rec != nil && r.rec.failed > 0 && r.rec.failed == len(r.rec.entries) && r.rec.entries[len(r.rec.entries)-1].op == optimize.PostIteration) || (r.wr != nil && r.wr.failed)
		if res.Status != optimize.Failure && !(injected && onPost) {
			return &Violation{prop, "minimize/error-status", fmt.Sprintf("%s: error %v returned with status %v, want Failure", name, err, res.Status)}
		}
	}
	if v := checkRecorderErrorReported(rc, prop, in, r); v != nil {
		return v
	}
	// Stats.Runtime is the simulated time the call took
	rc.oracle("runtime-exact")
	if st.Runtime != time.Duration(r.t1-r.t0) {
		return &Violation{prop, "minimize/runtime-stat", fmt.Sprintf("%s: Stats.Runtime=%v but the call took %v of simulated time", name, st.Runtime, time.Duration(r.t1-r.t0))}
	}

	// FunctionConvergence against the documented criterion (single-task runs
	// with the harness recorder: the recorder sees every MajorIteration that
	// did not stop the run, in order)
	if nTasks == 1 && r.rec != nil && r.rec.failed == 0 && !r.rec.initErr && in.convKind != 1 && in.prime == 0 {
		abs, rel, iters := 1e-10, 0.0, 100
		if in.convKind == 2 {
			abs, rel, iters = in.fcAbs, in.fcRel, in.fcIter
		}
		var fs []float64
		for _, e := range r.rec.entries {
			if e.op == optimize.MajorIteration {
				fs = append(fs, e.f)
			}
		}
		recorded := len(fs)
		if res.Status == optimize.FunctionConvergence {
			fs = append(fs, res.F)
		}
		// the documented rule: f_best changes only on a significant decrease
		best, count, at := 0.0, 0, -1
		for i, f := range fs {
			if i == 0 {
				best = f
				continue
			}
			// (a decrease from a non-finite best value is significant whatever
			// 0*Inf evaluates to; a NaN best value is replaced by any number)
			if (f < best && (math.IsInf(best, 1) || best-f > rel*math.Max(math.Abs(f), math.Abs(best))+abs)) || (math.IsNaN(best) && !math.IsNaN(f)) {
				best, count = f, 0
				continue
			}
			count++
			if iters > 0 && count >= iters {
				at = i
				break
			}
		}
		rc.oracle("function-convergence-criterion")
		if res.Status == optimize.FunctionConvergence && at != len(fs)-1 {
			return &Violation{prop, "minimize/status/FunctionConvergence/criterion", fmt.Sprintf("%s: stopped with FunctionConvergence at major iteration %d, but by the documented criterion (Absolute=%v Relative=%v Iterations=%d) the F history %v converges at index %d (-1 = never)", name, len(fs)-1, abs, rel, iters, tailF(fs), at)}
		}
		if res.Status != optimize.FunctionConvergence && at >= 0 && at < recorded {
			return &Violation{prop, "minimize/status/FunctionConvergence/missed", fmt.Sprintf("%s: by the documented criterion (Absolute=%v Relative=%v Iterations=%d) the F history %v converges at major iteration %d, yet the run went on and ended with %v", name, abs, rel, iters, tailF(fs), at, res.Status)}
		}
	}

	// Completeness in isolated-cause runs
	if in.isolated != 0 && (isGlobal(in.method) && in.method != mStub && in.method != mListSearch) {
		rc.oracle("status-completeness")
		want := []optimize.Status{0, optimize.FunctionEvaluationLimit, optimize.IterationLimit, optimize.RuntimeLimit}[in.isolated]
		if res.Status != want || err != nil {
			return &Violation{prop, "minimize/status-completeness", fmt.Sprintf("%s: the only stop condition configured is %v, but Minimize returned status %v, err %v (Stats %+v)", name, want, res.Status, err, st)}
		}
	}

	// Oracle 6: Recorder protocol
	if r.rec != nil {
		rc.oracle("recorder-protocol")
		rec := r.rec
		fail := func(why string) *Violation {
			ops := ""
			for i, e := range rec.entries {
				if i > 12 {
					ops += " ..."
					break
				}
				ops += " " + e.op.String()
			}
			return &Violation{prop, "minimize/recorder-protocol", fmt.Sprintf("%s: %s (Init calls %d, records:%s; err %v)", name, why, rec.initCalls, ops, err)}
		}
		if rec.initCalls != 1 {
			return fail("Recorder.Init was not called exactly once")
		}
		if rec.overlap {
			return fail("Record calls overlapped")
		}
		if len(rec.entries) == 0 || rec.entries[0].op != optimize.InitIteration {
			return fail("the first record is not InitIteration")
		}
		npost := 0
		for i, e := range rec.entries {
			if e.op == optimize.InitIteration && i != 0 {
				return fail("InitIteration recorded twice")
			}
			if e.op == optimize.PostIteration {
				npost++
				if i != len(rec.entries)-1 {
					return fail("PostIteration is not the last record")
				}
			}
			if e.stats.FuncEvaluations > st.FuncEvaluations || e.stats.MajorIterations > st.MajorIterations {
				return fail("a record carries counters beyond the final Stats")
			}
		}
		failedOnPost := rec.failed > 0 && rec.failed == len(rec.entries) && rec.entries[len(rec.entries)-1].op == optimize.PostIteration
		if err == nil || failedOnPost {
			if npost != 1 {
				return fail(fmt.Sprintf("PostIteration recorded %d times on a run that returned err=%v", npost, err))
			}
			last := rec.entries[len(rec.entries)-1].stats
			last.Runtime = st.Runtime
			if last != st && err == nil {
				return fail(fmt.Sprintf("PostIteration record carries Stats %+v, result %+v", last, st))
			}
		} else if npost != 0 {
			return fail("PostIteration recorded although Minimize returned an error")
		}
	}

	// Oracle 8: with the default settings on a strictly convex quadratic a run
	// that ends without an error has reached the minimizer: F is within 1e-6
	// (relative to 1+|F*|) of the minimum F* = -b'A^-1 b/2, far looser than the
	// default tests (gradient 1e-12, F unchanged by 1e-10 for 100 iterations).
	// (also when the run ends with a line-search failure: at the default
	// tolerances that happens at rounding level, next to the minimizer)
	if in.isolated == 4 && (in.prime == 0 || in.primeNaN) && res != nil && st.MajorIterations > 0 {
		rc.oracle("default-settings-reach-minimizer")
		var ch mat.Cholesky
		if ch.Factorize(in.obj.qa) {
			xs := mat.NewVecDense(in.dim, nil)
			if ch.SolveVecTo(xs, mat.NewVecDense(in.dim, append([]float64(nil), in.obj.qb...))) == nil {
				fstar := in.obj.f(xs.RawVector().Data)
				if !(res.F-fstar <= 1e-6*(1+math.Abs(fstar))) {
					cause := "no-error"
					switch {
					case err == nil:
					case errors.Is(err, optimize.ErrNoProgress):
						cause = "no-progress"
					case errors.Is(err, optimize.ErrLinesearcherFailure):
						cause = "linesearch-failed"
					case errors.Is(err, optimize.ErrNonDescentDirection):
						cause = "non-descent-direction"
					case errors.Is(err, optimize.ErrLinesearcherBound):
						cause = "linesearch-bound"
					default:
						cause = "other-error"
					}
					ls := []string{"default", "Backtracking", "Bisection", "MoreThuente"}[in.ls]
					return &Violation{prop, "minimize/default-settings/not-at-minimizer/" + name + "/" + ls + "/" + cause, fmt.Sprintf("%s with default settings on %s from %v stopped with status %v at F=%v, X=%v; the minimum is %v at %v (%d func evaluations, %d major iterations)",
						name, in.obj.name, in.initX, res.Status, res.F, res.X, fstar, xs.RawVector().Data, st.FuncEvaluations, st.MajorIterations)}
				}
			}
		}
	}

	// A gradient method started at a stationary point of a finite objective
	// (gradient exactly zero) with the gradient test in effect has converged
	// before it starts: "the status names the condition that stopped the run".
	if usesLS(in.method) && !in.nilMethod && in.obj.bad == 0 && in.obj.grad != nil && in.isolated == 4 && in.knob != 3 && in.prime == 0 {
		g0 := make([]float64, in.dim)
		in.obj.grad(g0, in.initX)
		zero := true
		for _, v := range g0 {
			zero = zero && v == 0
		}
		if zero {
			rc.oracle("stationary-start")
			rc.probe("start_at_stationary_point", 1)
			if res.Status != optimize.GradientThreshold || err != nil {
				return &Violation{prop, "minimize/status/stationary-start", fmt.Sprintf("%s with default settings started at %v, where the gradient of %s is exactly zero, returned status %v, err %v; the condition that stops this run is the gradient threshold", name, in.initX, in.obj.name, res.Status, err)}
			}
		}
	}

	// Oracle 7: every step a line-search method announces satisfies the
	// conditions its Linesearcher advertises, judged on the recorded history
	// of MajorIterations (see checkLinesearchSteps).
	if v := checkInitialSteps(rc, in, r); v != nil {
		return v
	}
	if v := checkLinesearchSteps(rc, in, r); v != nil {
		return v
	}
	return nil
}

// checkLinesearchSteps checks the advertised line-search conditions between
// consecutive announced locations. With dx = x1-x0 = step*dir (step > 0) the
// projected quantities step*(g.dir) equal g.dx, so the direction itself need
// not be known:
//
//	Backtracking: f1 <= f0 + Decrease * g0.dx                       (Armijo)
//	Bisection:    f1 <= f0  and  |g1.dx| <  Curvature * |g0.dx|     (strong Wolfe, zero decrease)
//	MoreThuente:  f1 <= f0 + Decrease * g0.dx and |g1.dx| <= Curvature * |g0.dx|
//
// The parameters are the exported fields of the Linesearcher the method holds
// after the run. x1 is a rounded x0+step*dir, so g.dx carries an error of at
// most about one ulp of each x per coordinate; the comparison allows for it,
// which makes the check vacuous for steps at rounding level and exact
// otherwise.
var stepSizerNames = []string{"nil (the method's default)", "ConstantStepSize{0.25}", "QuadraticStepSize{InitialStepFactor 0.5, Min 1/64, Max 4}", "FirstOrderStepSize{InitialStepFactor 2, Min 1/32, Max 2}", "QuadraticStepSize{}", "FirstOrderStepSize{}"}

// checkInitialSteps: the first trial point of every line search of
// GradientDescent (direction -g, so the step is |x_trial - x_k| / |g_k|) lies
// at the step its StepSizer advertises: ConstantStepSize "returns the same step
// size for every iteration"; QuadraticStepSize and FirstOrderStepSize start at
// InitialStepFactor/|g|_inf and keep every estimate within [MinStepSize,
// MaxStepSize]; FirstOrderStepSize chooses s_k with s_k g_k.p_k = s_{k-1}
// g_{k-1}.p_{k-1} inside those bounds. For CG only the first line search has a
// known direction.
// harnessStatus is a user-defined Status ("NewStatus returns a unique Status
// variable"), returned by Problem.Status in some runs.
var harnessStatus = optimize.NewStatus("HarnessStop", true, nil)

func checkInitialSteps(rc *RunCtx, in *minInst, r *minRun) *Violation {
	if r.rec == nil || in.method > mCGHZ || in.nilMethod || in.obj.bad != 0 || r.method == nil {
		return nil
	}
	var ss optimize.StepSizer
	switch m := r.method.(type) {
	case *optimize.GradientDescent:
		ss = m.StepSizer
	case *optimize.CG:
		ss = m.InitialStep
	}
	kind, init, lo, hi, size := "", 1.0, 1e-3, 1.0, 0.0
	or := func(v, d float64) float64 {
		if v == 0 {
			return d
		}
		return v
	}
	switch z := ss.(type) {
	case optimize.ConstantStepSize:
		kind, size = "Constant", z.Size
	case *optimize.QuadraticStepSize:
		kind, init, lo, hi = "Quadratic", or(z.InitialStepFactor, 1), or(z.MinStepSize, 1e-3), or(z.MaxStepSize, 1)
	case *optimize.FirstOrderStepSize:
		kind, init, lo, hi = "FirstOrder", or(z.InitialStepFactor, 1), or(z.MinStepSize, 1e-3), or(z.MaxStepSize, 1)
	default:
		return nil
	}
	clamp := func(v float64) float64 { return math.Max(lo, math.Min(v, hi)) }
	// (math.Hypot does not underflow: default-settings runs go on until
	// gradients of 1e-160 and displacements of 1e-163, whose squares are 0)
	norm2 := func(v []float64) float64 {
		var s float64
		for _, x := range v {
			s = math.Hypot(s, x)
		}
		return s
	}
	dist := func(a, b []float64) float64 {
		var s float64
		for i := range a {
			s = math.Hypot(s, a[i]-b[i])
		}
		return s
	}
	rc.oracle("initial-step-as-advertised")
	var prevMajor *recEntry
	lines := 0
	for i := 0; i+1 < len(r.rec.entries); i++ {
		e, nx := &r.rec.entries[i], &r.rec.entries[i+1]
		if e.op != optimize.MajorIteration {
			continue
		}
		if e.x == nil || len(e.g) == 0 || nx.x == nil || nx.op&(optimize.FuncEvaluation|optimize.GradEvaluation|optimize.HessEvaluation) == 0 || nx.op&^(optimize.FuncEvaluation|optimize.GradEvaluation|optimize.HessEvaluation) != 0 {
			prevMajor = nil
			continue
		}
		lines++
		if in.method != mGD && lines > 1 {
			break
		}
		gn := norm2(e.g)
		step := dist(nx.x, e.x) / gn
		if gn == 0 || math.IsNaN(step) || math.IsInf(step, 0) {
			prevMajor = nil
			continue
		}
		// rounding of x + step*d: a few ulps of the coordinates, relative to the displacement
		var xmax float64
		for _, v := range e.x {
			xmax = math.Max(xmax, math.Abs(v))
		}
		tol := 1e-9*step + 64*2.220446049250313e-16*(xmax+step*gn)*math.Sqrt(float64(len(e.x)))/gn
		where := fmt.Sprintf("%s with %s: line search %d (after major iteration %d) starts at step %v", methodNames[in.method], stepSizerNames[in.stepKnob], lines, e.stats.MajorIterations, step)
		var want float64
		switch {
		case kind == "Constant":
			want = size
		case lines == 1:
			var ginf float64
			for _, v := range e.g {
				ginf = math.Max(ginf, math.Abs(v))
			}
			want = clamp(init / ginf)
		case kind == "FirstOrder" && prevMajor != nil:
			// s_k = s_{k-1} |g_{k-1}|^2 / |g_k|^2 for p = -g
			gp := norm2(prevMajor.g)
			sPrev := dist(e.x, prevMajor.x) / gp
			want = clamp(sPrev * gp * gp / (gn * gn))
			tol += 1e-6 * want
		default:
			if step < lo-tol || step > hi+tol {
				return &Violation{"C19", "minimize/initial-step/out-of-bounds/" + kind, fmt.Sprintf("%s, outside [MinStepSize, MaxStepSize] = [%v, %v]", where, lo, hi)}
			}
			prevMajor = e
			continue
		}
		if math.Abs(step-want) > tol {
			return &Violation{"C19", "minimize/initial-step/not-as-documented/" + kind, fmt.Sprintf("%s; the step sizer's documentation gives %v", where, want)}
		}
		prevMajor = e
	}
	return nil
}

func checkLinesearchSteps(rc *RunCtx, in *minInst, r *minRun) *Violation {
	if r.rec == nil || !usesLS(in.method) || in.nilMethod || in.obj.bad != 0 || r.method == nil {
		return nil
	}
	var ls optimize.Linesearcher
	switch m := r.method.(type) {
	case *optimize.GradientDescent:
		ls = m.Linesearcher
	case *optimize.CG:
		ls = m.Linesearcher
	case *optimize.BFGS:
		ls = m.Linesearcher
	case *optimize.LBFGS:
		ls = m.Linesearcher
	case *optimize.Newton:
		ls = m.Linesearcher
	}
	kind, dec, curv := "", 0.0, 0.0
	switch l := ls.(type) {
	case *optimize.Backtracking:
		kind, dec = "Backtracking", l.DecreaseFactor
	case *optimize.Bisection:
		kind, curv = "Bisection", l.CurvatureFactor
	case *optimize.MoreThuente:
		kind, dec, curv = "MoreThuente", l.DecreaseFactor, l.CurvatureFactor
	default:
		return nil
	}
	if !(dec >= 0 && dec < 1) || !(curv >= 0 && curv < 1) {
		return nil
	}
	rc.oracle("linesearch-conditions")
	const eps = 2.220446049250313e-16
	var prev *recEntry
	for i := range r.rec.entries {
		e := &r.rec.entries[i]
		if e.x == nil || (e.op != optimize.InitIteration && e.op != optimize.MajorIteration) {
			// (the record that follows a MajorIteration also carries its x,
			// for checkInitialSteps; it is not an announced location)
			continue
		}
		if prev == nil || prev.g == nil || e.g == nil {
			prev = e
			continue
		}
		var p0, p1, tol0, tol1 float64
		for j := range e.x {
			dx := e.x[j] - prev.x[j]
			ulp := 4 * eps * (math.Abs(e.x[j]) + math.Abs(prev.x[j]))
			p0 += prev.g[j] * dx
			p1 += e.g[j] * dx
			tol0 += math.Abs(prev.g[j]) * ulp
			tol1 += math.Abs(e.g[j]) * ulp
		}
		// (the absolute terms cover underflow: products of numbers around
		// 1e-160 are denormal or zero, and relative bounds mean nothing
		// for them)
		const underflow = 1e-300
		tol0 += 16*eps*math.Abs(p0) + underflow
		tol1 += 16*eps*math.Abs(p1) + underflow
		ftol := 16*eps*(math.Abs(prev.f)+math.Abs(e.f)) + underflow
		if math.IsNaN(p0+p1+prev.f+e.f) || math.IsInf(p0+p1+prev.f+e.f, 0) {
			prev = e
			continue
		}
		where := fmt.Sprintf("%s with %s: major iteration %d: f0=%v f1=%v g0.dx=%v g1.dx=%v (Decrease %v, Curvature %v)", methodNames[in.method], kind, e.stats.MajorIterations, prev.f, e.f, p0, p1, dec, curv)
		if p0 > tol0 {
			return &Violation{"C19", "minimize/linesearch-conditions/ascent-step/" + kind, where + ": the announced step goes uphill along the initial gradient"}
		}
		if e.f > prev.f+dec*p0+dec*tol0+ftol {
			return &Violation{"C19", "minimize/linesearch-conditions/sufficient-decrease/" + kind, where + ": the announced step does not satisfy the sufficient decrease condition"}
		}
		if kind != "Backtracking" && math.Abs(p1) > curv*math.Abs(p0)+tol1+curv*tol0 {
			return &Violation{"C19", "minimize/linesearch-conditions/curvature/" + kind, where + ": the announced step does not satisfy the strong Wolfe curvature condition"}
		}
		prev = e
	}
	return nil
}
