// Command harness is the simulation worker: it runs seeded simulations of
// gonum's concurrent surfaces (built from a rewritten scratch copy, see
// DESIGN.md section 2) and evaluates the oracles of C09 and C19.
package main

import (
	"encoding/binary"
	"encoding/json"
	"flag"
	"fmt"
	"os"
	"path/filepath"
	"runtime"
	"sort"
	"strings"
	"sync/atomic"
	"time"

	"verif/simrt"
)

// Violation is an oracle failure. Oracle is the signature: minimisation keeps
// a candidate only if it fails with the same signature, and known findings
// are matched on it.
type Violation struct {
	Property string `json:"property"`
	Oracle   string `json:"oracle"`
	Msg      string `json:"msg"`
}

// Scenario is one simulated workload with its oracles.
type Scenario struct {
	Name  string
	Props []string // properties whose check runs this scenario
	// Weight is the scenario's share of the run indices of a property's
	// check (absent = 1).
	Weight map[string]int
	// Run draws an instance and its schedule from the tape, simulates and
	// evaluates the oracles.
	Run func(t *simrt.Tape, rc *RunCtx) *Violation
}

var scenarios []*Scenario

// scale widens workload bounds in the thorough tier (1 = quick).
var scale = 1

func register(s *Scenario) { scenarios = append(scenarios, s) }

// RunCtx collects what a run did (evidence) and carries per-run switches.
type RunCtx struct {
	Trace    bool
	Instance map[string]interface{} // decoded workload, for samples and replay files
	Outcomes []*simrt.Outcome       // simulations executed by this run
	agg      *Agg
	scen     string
	raceLog  string
}

// Agg aggregates evidence over all runs of a worker.
type Agg struct {
	Runs        int               `json:"runs"`
	Sims        int               `json:"sims"`
	Steps       int64             `json:"steps"`
	SimTimeNS   int64             `json:"sim_time_ns"`
	Goroutines  int64             `json:"goroutines"`
	MaxLive     int               `json:"max_live_goroutines"`
	Faults      map[string]int64  `json:"faults"` // fired, not configured
	Probes      map[string]int64  `json:"probes"`
	Oracles     map[string]int64  `json:"oracle_evaluations"`
	PerScenario map[string]int64  `json:"runs_per_scenario"`
	Policies    map[string]int64  `json:"policies"`
	Procs       map[string]int64  `json:"gomaxprocs"`
	TapeDraws   map[string]uint64 `json:"tape_draws"`
	Extra       map[string]int64  `json:"extra"` // histograms of the workload actually generated
	hashes      map[uint64]struct{}
	nontrivial  map[uint64]struct{}
	Samples     []interface{} `json:"samples"`
	DetChecked  int           `json:"determinism_rechecked"`
}

func newAgg() *Agg {
	return &Agg{Faults: map[string]int64{}, Probes: map[string]int64{}, Oracles: map[string]int64{}, PerScenario: map[string]int64{},
		Policies: map[string]int64{}, Procs: map[string]int64{}, TapeDraws: map[string]uint64{}, Extra: map[string]int64{}, hashes: map[uint64]struct{}{}, nontrivial: map[uint64]struct{}{}}
}

func (rc *RunCtx) probe(name string, n int) {
	if n != 0 {
		rc.agg.Probes[rc.scen+"/"+name] += int64(n)
	}
}
func (rc *RunCtx) fault(name string, n int) {
	if n != 0 {
		rc.agg.Faults[name] += int64(n)
	}
}
func (rc *RunCtx) oracle(name string) { rc.agg.Oracles[rc.scen+"/"+name]++ }

// hist counts one generated workload item (evidence: what the quantifier
// actually ranged over).
func (rc *RunCtx) hist(name string) { rc.agg.Extra["hist:"+rc.scen+"/"+name]++ }

// declare makes a probe / fault kind appear in evidence even when it stays
// at zero (so that "stuck at zero" is visible).
func (rc *RunCtx) declare(probes ...string) {
	for _, p := range probes {
		if _, ok := rc.agg.Probes[rc.scen+"/"+p]; !ok {
			rc.agg.Probes[rc.scen+"/"+p] = 0
		}
	}
}

// Sim runs one simulation, accumulates evidence and converts every abnormal
// verdict into a violation.
func (rc *RunCtx) Sim(prop string, t *simrt.Tape, cfg simrt.Config, fn func()) (*simrt.Outcome, *Violation) {
	cfg.Trace = rc.Trace
	out := simrt.Run(t, cfg, fn)
	rc.Outcomes = append(rc.Outcomes, out)
	a := rc.agg
	a.Sims++
	a.Steps += int64(out.Steps)
	a.SimTimeNS += out.SimTime
	a.Goroutines += int64(out.Goroutines)
	if out.MaxLive > a.MaxLive {
		a.MaxLive = out.MaxLive
	}
	a.hashes[out.Hash] = struct{}{}
	st := out.Stats
	if st.MultiRunnable > 0 && st.Switches > 0 {
		a.nontrivial[out.Hash] = struct{}{}
	}
	a.Policies[cfg.Policy.String()]++
	a.Procs[fmt.Sprint(cfg.GOMAXPROCS)]++
	rc.fault("sched.preemptive_switch", st.Switches)
	rc.fault("sched.pct_priority_change", st.PCTChanges)
	rc.fault("select.multi_ready_choice", st.SelectMulti)
	rc.fault("pool.hit", st.PoolHit)
	rc.fault("pool.miss", st.PoolMiss)
	rc.fault("pool.purge", st.PoolPurge)
	rc.fault("pool.poison_on_put", st.PoolPoisoned)
	rc.fault("pool.poisoned_hit", st.PoolDirtyHit)
	rc.fault("pool.double_put_observed", st.PoolDoublePut)
	rc.fault("clock.jump", st.ClockJumps)
	rc.fault("clock.timer_fire", st.TimerFires)
	rc.probe("chan_op_blocked", st.ChanBlocked)
	rc.probe("select_blocked", st.SelectBlocked)
	rc.probe("mutex_contended", st.MutexBlocked)
	sig := ""
	switch out.Verdict {
	case simrt.VOK:
		if out.Races > 0 {
			return out, &Violation{prop, rc.scen + "/race", fmt.Sprintf("%d data race report(s) in a simulated execution (see race log)", out.Races)}
		}
		return out, nil
	case simrt.VDeadlock:
		sig = "deadlock"
	case simrt.VLeak:
		sig = "goroutine-leak"
	case simrt.VStepLimit:
		sig = "livelock"
	case simrt.VPanic:
		sig = "panic"
	case simrt.VFail:
		// msg is "<oracle>: text"
		o, m, ok := strings.Cut(out.Msg, ": ")
		if !ok {
			o, m = "fail", out.Msg
		}
		return out, &Violation{prop, rc.scen + "/" + o, m}
	}
	msg := out.Msg
	for _, b := range out.Blocked {
		msg += fmt.Sprintf("; G%d blocked in %v at %s", b.G, b.Op, siteName(b.Site))
	}
	if out.Verdict == simrt.VPanic {
		msg += "\n" + trimStack(out.PanicStack)
	}
	return out, &Violation{prop, rc.scen + "/" + sig, msg}
}

func trimStack(s string) string {
	lines := strings.Split(s, "\n")
	var keep []string
	for _, l := range lines {
		if strings.Contains(l, "simrt.") || strings.Contains(l, "/simrt/") || strings.Contains(l, "runtime/") || strings.Contains(l, "debug.Stack") {
			continue
		}
		keep = append(keep, l)
		if len(keep) > 24 {
			break
		}
	}
	return strings.Join(keep, "\n")
}

// site table written by simrewrite
type siteInfo struct {
	ID   int    `json:"id"`
	File string `json:"file"`
	Line int    `json:"line"`
	Kind string `json:"kind"`
	Func string `json:"func"`
}

var siteTab = map[int]siteInfo{}

func siteName(id int) string {
	if s, ok := siteTab[id]; ok {
		return fmt.Sprintf("%s:%d(%s)", s.File, s.Line, s.Kind)
	}
	if id < 0 {
		return "-"
	}
	return fmt.Sprintf("site#%d", id)
}

func loadSites(path string) {
	b, err := os.ReadFile(path)
	if err != nil {
		return
	}
	var list []siteInfo
	if json.Unmarshal(b, &list) != nil {
		return
	}
	max := 0
	for _, s := range list {
		siteTab[s.ID] = s
		if s.ID > max {
			max = s.ID
		}
	}
	simrt.SetSites(max)
}

// drawConfig draws scheduling policy and GOMAXPROCS for a test simulation.
func drawConfig(t *simrt.Tape, pctSteps int) simrt.Config {
	cfg := simrt.Config{}
	cfg.GOMAXPROCS = []int{1, 2, 4, 16}[t.Choose(simrt.KPolicy, 4)]
	// the CPU count is independent of GOMAXPROCS (0 = equal)
	cfg.NumCPU = []int{0, 16, 1, 64}[t.Choose(simrt.KPolicy, 4)]
	// value 0 = FIFO so that the zero tape is the boring baseline
	switch t.Choose(simrt.KPolicy, 8) {
	case 0:
		cfg.Policy = simrt.PolicyFIFO
	case 1, 2, 3:
		cfg.Policy = simrt.PolicyRandom
	case 4, 5:
		cfg.Policy = simrt.PolicySticky
		cfg.StickyN = 2 + t.Choose(simrt.KPolicy, 14)
	default:
		cfg.Policy = simrt.PolicyPCT
		cfg.PCTDepth = 1 + t.Choose(simrt.KPolicy, 3)
		cfg.PCTSteps = pctSteps
	}
	return cfg
}

func baselineConfig() simrt.Config {
	return simrt.Config{GOMAXPROCS: 1, Policy: simrt.PolicyFIFO}
}

type workerOut struct {
	Property   string               `json:"property"`
	Seed       uint64               `json:"seed"`
	From       int                  `json:"from"`
	To         int                  `json:"to"`
	Race       bool                 `json:"race_build"`
	WallS      float64              `json:"wall_s"`
	Agg        *Agg                 `json:"agg"`
	Distinct   int                  `json:"distinct_schedules"`
	Nontrivial int                  `json:"distinct_nontrivial_schedules"`
	Violations []violationOut       `json:"violations"`
	SiteHits   map[string]uint32    `json:"site_hits"`
	Infra      string               `json:"infrastructure_error,omitempty"`
	KnownHits  map[string]*knownHit `json:"known_hits,omitempty"`
}

type knownHit struct {
	Count   int    `json:"count"`
	Example string `json:"example"`
}

type violationOut struct {
	Violation
	Scenario string `json:"scenario"`
	Run      int    `json:"run"`
	Replay   string `json:"replay"`
}

// replayFile is the on-disk replay format.
type replayFile struct {
	Property  string                 `json:"property"`
	Scenario  string                 `json:"scenario"`
	Oracle    string                 `json:"oracle"`
	Msg       string                 `json:"msg"`
	Seed      uint64                 `json:"seed"`
	Run       int                    `json:"run"`
	RaceBuild bool                   `json:"race_build"`
	Scale     int                    `json:"workload_scale"`
	Tape      []uint32               `json:"tape"`
	TapeLen0  int                    `json:"tape_len_before_minimisation"`
	Reruns    int                    `json:"minimisation_reruns"`
	Instance  map[string]interface{} `json:"instance"`
	Trace     []string               `json:"trace"`
	TraceHash string                 `json:"trace_hash"`
	RaceLog   string                 `json:"race_report,omitempty"`
}

func scenarioByName(name string) *Scenario {
	for _, s := range scenarios {
		if s.Name == name {
			return s
		}
	}
	return nil
}

func scenariosFor(prop string, only string) []*Scenario {
	var out []*Scenario
	for _, s := range scenarios {
		if only != "" {
			if s.Name == only {
				out = append(out, s)
			}
			continue
		}
		for _, p := range s.Props {
			if p == prop {
				for i := 0; i < max(1, s.Weight[p]); i++ {
					out = append(out, s)
				}
			}
		}
	}
	return out
}

// execute runs scenario s on a tape and returns the violation, the context
// and a hash over all simulation outcomes of the run.
func execute(s *Scenario, t *simrt.Tape, agg *Agg, trace bool) (*Violation, *RunCtx, uint64) {
	rc := &RunCtx{Trace: trace, Instance: map[string]interface{}{}, agg: agg, scen: s.Name}
	v := s.Run(t, rc)
	h := uint64(1469598103934665603)
	for _, o := range rc.Outcomes {
		h = simrt.Mix(h, o.Hash, uint64(o.Steps), uint64(o.Verdict))
	}
	if v != nil {
		h = simrt.Mix(h, uint64(len(v.Oracle)))
	}
	return v, rc, h
}

func formatTrace(rc *RunCtx) []string {
	var lines []string
	for i, o := range rc.Outcomes {
		lines = append(lines, fmt.Sprintf("--- simulation %d: verdict=%v steps=%d simtime=%v goroutines=%d hash=%016x", i, o.Verdict, o.Steps, time.Duration(o.SimTime), o.Goroutines, o.Hash))
		tr := o.Trace
		if len(tr) > 4000 {
			lines = append(lines, fmt.Sprintf("... %d earlier events omitted ...", len(tr)-4000))
			tr = tr[len(tr)-4000:]
		}
		for _, e := range tr {
			code := ""
			switch {
			case e.Code == simrt.CodeDone:
			case e.Code == simrt.CodeBlocked:
				code = " blocked"
			case e.Code == simrt.CodeWoken:
				code = " woken"
			case e.Code == simrt.CodeClosed:
				code = " closed"
			case e.Code == 199:
				code = " default"
			default:
				code = fmt.Sprintf(" arm=%d", e.Code)
			}
			lines = append(lines, fmt.Sprintf("%6d G%-3d %-8s %s%s", e.Step, e.G, e.Op, siteName(e.Site), code))
		}
	}
	return lines
}

// minimise delta-debugs the tape: a candidate is kept only if the same
// oracle fails with the same signature.
func minimise(s *Scenario, tape []uint32, sig string, budget int, deadline time.Time) ([]uint32, int) {
	scratch := newAgg()
	reruns := 0
	fails := func(c []uint32) bool {
		if reruns >= budget || time.Now().After(deadline) {
			return false
		}
		reruns++
		v, _, _ := execute(s, simrt.ReplayTape(c), scratch, false)
		return v != nil && v.Oracle == sig
	}
	cur := append([]uint32(nil), tape...)
	// 1. shortest failing prefix (zeros beyond the end)
	lo, hi := 0, len(cur)
	for lo < hi {
		mid := (lo + hi) / 2
		if fails(cur[:mid]) {
			hi = mid
		} else {
			lo = mid + 1
		}
	}
	if hi < len(cur) && fails(cur[:hi]) {
		cur = cur[:hi]
	}
	// 2. delete chunks
	for n := len(cur) / 2; n >= 1; n /= 2 {
		for i := 0; i+n <= len(cur); {
			c := append(append([]uint32(nil), cur[:i]...), cur[i+n:]...)
			if fails(c) {
				cur = c
			} else {
				i += n
			}
		}
	}
	// 3. zero, then lower, single values
	for i := range cur {
		if cur[i] == 0 {
			continue
		}
		old := cur[i]
		cur[i] = 0
		if fails(cur) {
			continue
		}
		cur[i] = old
		for v := old / 2; v > 0; v /= 2 {
			cur[i] = v
			if !fails(cur) {
				cur[i] = old
				break
			}
			old = v
		}
	}
	for len(cur) > 0 && cur[len(cur)-1] == 0 {
		cur = cur[:len(cur)-1]
	}
	return cur, reruns
}

func writeReplay(dir string, rf *replayFile) string {
	os.MkdirAll(dir, 0o755)
	sig := strings.NewReplacer("/", "_", " ", "_").Replace(rf.Oracle)
	name := fmt.Sprintf("%s-%s-%d-%d.json", rf.Property, sig, rf.Seed, rf.Run)
	if rf.RaceBuild {
		name = "race-" + name
	}
	path := filepath.Join(dir, name)
	b, _ := json.MarshalIndent(rf, "", " ")
	os.WriteFile(path, b, 0o644)
	return path
}

func readRaceLog(prefix string) string {
	if prefix == "" {
		return ""
	}
	m, _ := filepath.Glob(prefix + ".*")
	var sb strings.Builder
	for _, f := range m {
		b, _ := os.ReadFile(f)
		sb.Write(b)
	}
	s := sb.String()
	if len(s) > 12000 {
		s = s[:12000] + "\n...truncated..."
	}
	return s
}

func main() {
	prop := flag.String("prop", "C09", "property whose scenarios to run")
	only := flag.String("scenario", "", "run only this scenario")
	seed := flag.Uint64("seed", 1, "VERIF_SEED")
	from := flag.Int("from", 0, "first run index")
	to := flag.Int("to", 100, "one past the last run index")
	budget := flag.Duration("budget", 0, "stop after this much wall time (0 = run the whole range)")
	outPath := flag.String("out", "", "write the worker summary here (JSON)")
	hashOut := flag.String("hashes", "", "write distinct schedule hashes here (binary)")
	replayDir := flag.String("replays", "replays", "directory for replay files")
	replay := flag.String("replay", "", "replay this file instead of searching")
	sitesPath := flag.String("sites", "", "site table from simrewrite")
	detEvery := flag.Int("detcheck", 20, "re-execute every n-th run and compare trace hashes (0 = off)")
	dumpHashes := flag.Bool("dumprunhashes", false, "print run index and run hash for every run (determinism self-test)")
	raceLog := flag.String("racelog", "", "prefix of GORACE log_path (race build)")
	stride := flag.Int("stride", 1, "run indices from, from+stride, ...")
	knownPath := flag.String("known", "", "known findings (JSON list): matching violations are counted, not reported")
	tier := flag.String("tier", "quick", "quick or thorough: thorough widens the size bounds of the generated workloads")
	sigOnly := flag.Bool("sigonly", false, "with -replay: print only the signature line (used by the driver to minimise race-lane tapes across processes)")
	flag.Parse()
	activeProp = *prop
	if *tier == "thorough" {
		scale = 3
	}
	loadSites(*sitesPath)
	sort.Slice(scenarios, func(i, j int) bool { return scenarios[i].Name < scenarios[j].Name })

	if *replay != "" {
		if *sigOnly {
			os.Exit(replaySignature(*replay))
		}
		os.Exit(doReplay(*replay, *raceLog))
	}

	scs := scenariosFor(*prop, *only)
	if len(scs) == 0 {
		fmt.Fprintf(os.Stderr, "harness: no scenario for property %s / %s\n", *prop, *only)
		os.Exit(2)
	}
	agg := newAgg()
	wo := &workerOut{Property: *prop, Seed: *seed, From: *from, To: *to, Race: simrt.RaceBuild, Agg: agg, KnownHits: map[string]*knownHit{}}
	go hangMonitor(*seed, *replayDir, *outPath, wo)
	knownSigs := map[string]bool{}
	if *knownPath != "" {
		var list []struct{ Property, Signature string }
		if b, err := os.ReadFile(*knownPath); err == nil && json.Unmarshal(b, &list) == nil {
			for _, k := range list {
				knownSigs[k.Property+"|"+k.Signature] = true
			}
		}
	}
	start := time.Now()
	seenSig := map[string]bool{}
	for run := *from; run < *to; run += *stride {
		if *budget > 0 && time.Since(start) > *budget {
			wo.To = run
			break
		}
		s := scs[run%len(scs)]
		runSeed := simrt.Mix(*seed, hashString(*prop), hashString(s.Name), uint64(run))
		t := simrt.NewTape(runSeed)
		curRun.Store(int64(run))
		curScenario.Store(s.Name)
		curTape.Store(t)
		races0 := simrt.RaceErrors()
		v, rc, h := execute(s, t, agg, false)
		agg.Runs++
		agg.PerScenario[s.Name]++
		for k := simrt.Kind(0); k < 10; k++ {
			agg.TapeDraws[simrt.KindName(k)] += t.Draws[k]
		}
		if len(agg.Samples) < 6 && run%len(scs) == (run/len(scs))%len(scs) {
			agg.Samples = append(agg.Samples, map[string]interface{}{"scenario": s.Name, "run": run, "instance": rc.Instance, "tape_len": t.Pos(), "sim_steps": stepsOf(rc)})
		}
		if *dumpHashes {
			fmt.Printf("RUNHASH %d %s %016x\n", run, s.Name, h)
		}
		if v == nil && *detEvery > 0 && run%*detEvery == 0 {
			// determinism self-check: replay the recorded tape, the run hash must match
			scratch := newAgg()
			v2, _, h2 := execute(s, simrt.ReplayTape(t.Recorded()), scratch, false)
			agg.DetChecked++
			if v2 != nil || h2 != h {
				wo.Infra = fmt.Sprintf("nondeterminism: scenario %s run %d seed %d: replay of the recorded tape gave hash %016x (violation %v), first execution %016x", s.Name, run, *seed, h2, v2, h)
				break
			}
		}
		if v == nil {
			continue
		}
		if knownSigs[v.Property+"|"+v.Oracle] {
			kh := wo.KnownHits[v.Oracle]
			if kh == nil {
				kh = &knownHit{Example: fmt.Sprintf("run %d: %s", run, v.Msg)}
				wo.KnownHits[v.Oracle] = kh
			}
			kh.Count++
			continue
		}
		if simrt.RaceBuild && simrt.RaceErrors() > races0 && !strings.HasSuffix(v.Oracle, "/race") {
			v.Msg += " [race reports were also produced in this run]"
		}
		vo := violationOut{Violation: *v, Scenario: s.Name, Run: run}
		if !seenSig[v.Oracle] || len(wo.Violations) < 3 {
			seenSig[v.Oracle] = true
			rf := &replayFile{Property: v.Property, Scenario: s.Name, Oracle: v.Oracle, Msg: v.Msg, Seed: *seed, Run: run, RaceBuild: simrt.RaceBuild, Scale: scale}
			tape := t.Recorded()
			rf.TapeLen0 = len(tape)
			if strings.HasSuffix(v.Oracle, "/race") {
				// a race report is issued once per process for a given pair of
				// stacks: it cannot be re-observed in-process, so no shrinking
				rf.Tape = tape
				rf.RaceLog = readRaceLog(*raceLog)
			} else {
				rf.Tape, rf.Reruns = minimise(s, tape, v.Oracle, 400, time.Now().Add(60*time.Second))
			}
			scratch := newAgg()
			v3, rc3, h3 := execute(s, simrt.ReplayTape(rf.Tape), scratch, true)
			if v3 != nil && v3.Oracle == v.Oracle {
				rf.Msg = v3.Msg
			}
			rf.Instance = rc3.Instance
			rf.Trace = formatTrace(rc3)
			rf.TraceHash = fmt.Sprintf("%016x", h3)
			vo.Replay = writeReplay(*replayDir, rf)
			vo.Msg = rf.Msg
		}
		wo.Violations = append(wo.Violations, vo)
		if strings.HasSuffix(v.Oracle, "/race") {
			// further reports from this process would be deduplicated by the
			// race detector: end this worker's batch here
			wo.To = run + 1
			break
		}
		if len(wo.Violations) >= 50 {
			wo.To = run + 1
			break
		}
	}
	wo.WallS = time.Since(start).Seconds()
	wo.Distinct = len(agg.hashes)
	wo.Nontrivial = len(agg.nontrivial)
	wo.SiteHits = map[string]uint32{}
	for i, n := range simrt.SiteHits {
		if n > 0 {
			wo.SiteHits[fmt.Sprintf("%d.%d", i/3, i%3)] = n
		}
	}
	if *hashOut != "" {
		writeHashes(*hashOut, agg)
	}
	b, _ := json.Marshal(wo)
	if *outPath != "" {
		os.WriteFile(*outPath, b, 0o644)
	} else {
		os.Stdout.Write(b)
		fmt.Println()
	}
	if wo.Infra != "" {
		fmt.Fprintln(os.Stderr, "harness:", wo.Infra)
		os.Exit(2)
	}
	if len(wo.Violations) > 0 {
		os.Exit(1)
	}
}

var (
	curRun      atomic.Int64
	curScenario atomic.Value
	curTape     atomic.Value
)

// hangMonitor classifies a scheduler step that does not come back (DESIGN.md
// section 2.6): if neither the run index nor the simulation's step counter
// moves for 60 s of wall time, the goroutine holding the baton is spinning in
// code under test (or blocked in a primitive the rewriter missed). The tape
// drawn so far is saved as a replay file and the worker stops.
func hangMonitor(seed uint64, replayDir, outPath string, wo *workerOut) {
	lastRun, lastSteps, lastGs := int64(-1), -1, -1
	stuck := 0
	for {
		time.Sleep(5 * time.Second)
		r, st, gs := curRun.Load(), simrt.Steps(), simrt.NumGoroutine()
		if r == lastRun && st == lastSteps && gs == lastGs && simrt.InSim() {
			stuck++
		} else {
			stuck = 0
		}
		lastRun, lastSteps, lastGs = r, st, gs
		if stuck < 12 {
			continue
		}
		buf := make([]byte, 1<<16)
		buf = buf[:runtime.Stack(buf, true)]
		scen, _ := curScenario.Load().(string)
		t, _ := curTape.Load().(*simrt.Tape)
		rf := &replayFile{Property: activeProp, Scenario: scen, Oracle: scen + "/hang", Seed: seed, Run: int(r), RaceBuild: simrt.RaceBuild, Scale: scale,
			Msg: fmt.Sprintf("a simulated goroutine has not reached its next scheduling point for 60 s of wall time (step %d, %d goroutines): non-terminating loop in the code under test, or blocked in a primitive outside the simulator\n%s", st, gs, trimStack(string(buf)))}
		if t != nil {
			rf.Tape = t.Recorded()
		}
		path := writeReplay(replayDir, rf)
		wo.Violations = append(wo.Violations, violationOut{Violation{activeProp, rf.Oracle, rf.Msg}, scen, int(r), path})
		b, _ := json.Marshal(wo)
		if outPath != "" {
			os.WriteFile(outPath, b, 0o644)
		}
		os.Exit(1)
	}
}

func stepsOf(rc *RunCtx) []int {
	var s []int
	for _, o := range rc.Outcomes {
		s = append(s, o.Steps)
	}
	return s
}

func writeHashes(path string, agg *Agg) {
	const max = 2000000
	buf := make([]byte, 0, 9*len(agg.hashes))
	n := 0
	for h := range agg.hashes {
		if n >= max {
			break
		}
		var b [9]byte
		binary.LittleEndian.PutUint64(b[:8], h)
		if _, ok := agg.nontrivial[h]; ok {
			b[8] = 1
		}
		buf = append(buf, b[:]...)
		n++
	}
	os.WriteFile(path, buf, 0o644)
}

func hashString(s string) uint64 {
	h := uint64(14695981039346656037)
	for i := 0; i < len(s); i++ {
		h ^= uint64(s[i])
		h *= 1099511628211
	}
	return h
}

// replaySignature replays a tape and prints "SIG <oracle>" (or "SIG none").
func replaySignature(path string) int {
	b, err := os.ReadFile(path)
	if err != nil {
		return 2
	}
	var rf replayFile
	if json.Unmarshal(b, &rf) != nil {
		return 2
	}
	s := scenarioByName(rf.Scenario)
	if s == nil {
		return 2
	}
	activeProp = rf.Property
	if rf.Scale > 0 {
		scale = rf.Scale
	}
	v, _, _ := execute(s, simrt.ReplayTape(rf.Tape), newAgg(), false)
	if v == nil {
		fmt.Println("SIG none")
		return 0
	}
	fmt.Println("SIG", v.Oracle)
	return 1
}

func doReplay(path, raceLog string) int {
	b, err := os.ReadFile(path)
	if err != nil {
		fmt.Fprintln(os.Stderr, "harness:", err)
		return 2
	}
	var rf replayFile
	if err := json.Unmarshal(b, &rf); err != nil {
		fmt.Fprintln(os.Stderr, "harness:", err)
		return 2
	}
	if rf.RaceBuild != simrt.RaceBuild {
		fmt.Fprintf(os.Stderr, "harness: replay file was recorded with race_build=%v; use the matching worker binary\n", rf.RaceBuild)
		return 2
	}
	s := scenarioByName(rf.Scenario)
	if s == nil {
		fmt.Fprintln(os.Stderr, "harness: unknown scenario", rf.Scenario)
		return 2
	}
	agg := newAgg()
	activeProp = rf.Property
	if rf.Scale > 0 {
		scale = rf.Scale
	}
	v, rc, h := execute(s, simrt.ReplayTape(rf.Tape), agg, true)
	for _, l := range formatTrace(rc) {
		fmt.Println(l)
	}
	fmt.Printf("instance: %v\n", rc.Instance)
	if v == nil {
		fmt.Printf("replay of %s: not reproduced on this tree (no oracle failed)\n", path)
		return 0
	}
	fmt.Printf("oracle: %s\nmessage: %s\n", v.Oracle, v.Msg)
	if v.Oracle != rf.Oracle {
		fmt.Printf("replay of %s: a different oracle failed (recorded %s)\n", path, rf.Oracle)
	} else if got := fmt.Sprintf("%016x", h); got != rf.TraceHash {
		fmt.Printf("replay of %s: same oracle, trace hash %s differs from recorded %s (tree changed since recording)\n", path, got, rf.TraceHash)
	} else {
		fmt.Printf("replay of %s: reproduced exactly (trace hash %s)\n", path, got)
	}
	if raceLog != "" {
		fmt.Println(readRaceLog(raceLog))
	}
	fmt.Printf("VIOLATION property=%s replay=%s\n", v.Property, path)
	return 1
}

var _ = runtime.GOMAXPROCS
