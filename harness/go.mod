module verif/harness

go 1.23.0

toolchain go1.23.5

require (
	github.com/anishathalye/porcupine v1.3.0
	gonum.org/v1/gonum v0.0.0
	verif/simrt v0.0.0
)

require golang.org/x/tools v0.26.0 // indirect

replace verif/simrt => /verif/simrt

replace gonum.org/v1/gonum => /var/tmp/verif-scratch-test
