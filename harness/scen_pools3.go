package main

import (
	"gonum.org/v1/gonum/mat"
)

// Third part of the S4 catalogue. It was written from a statement-coverage
// measurement of the first two parts (tools/pool_coverage.py lists, for every
// function of package mat that touches a pooled workspace, the blocks the
// workload never executed): transposed solves, the special-cased operand types
// of Dense.Mul, receivers that alias transposed arguments, the small-power and
// short-chain fast paths, failed factorizations and reused factorization
// receivers.

func (r *opRand) tri(n int, kind mat.TriKind) *mat.TriDense {
	t := mat.NewTriDense(n, kind, nil)
	for i := 0; i < n; i++ {
		for j := 0; j < n; j++ {
			if (kind == mat.Upper && j >= i) || (kind == mat.Lower && j <= i) {
				v := r.next()
				if i == j {
					v += float64(2*n + 2)
				}
				t.SetTri(i, j, v)
			}
		}
	}
	return t
}

// sym returns a general (not positive definite) symmetric matrix.
func (r *opRand) sym(n int) *mat.SymDense {
	s := mat.NewSymDense(n, nil)
	for i := 0; i < n; i++ {
		for j := i; j < n; j++ {
			s.SetSym(i, j, r.next())
		}
	}
	return s
}

func init() {
	poolOps = append(poolOps,
		poolOp{"QR.SolveTo/SolveVecTo(trans, tall)", func(r *opRand, n int) []float64 {
			a := r.dense(n+3, n)
			var qr mat.QR
			qr.Factorize(a)
			var x, x2 mat.Dense
			var xv mat.VecDense
			err := qr.SolveTo(&x, true, r.dense(n, 2))
			err2 := qr.SolveVecTo(&xv, true, r.vec(n))
			err3 := x2.Solve(a.T(), r.dense(n, 1))
			return append(flat(&x, &xv, &x2), errf(err), errf(err2), errf(err3))
		}},
		poolOp{"LQ.SolveTo/SolveVecTo(trans, wide)", func(r *opRand, n int) []float64 {
			a := r.dense(n, n+3)
			var lq mat.LQ
			lq.Factorize(a)
			var x mat.Dense
			var xv mat.VecDense
			err := lq.SolveTo(&x, true, r.dense(n+3, 2))
			err2 := lq.SolveVecTo(&xv, true, r.vec(n+3))
			return append(flat(&x, &xv), errf(err), errf(err2))
		}},
		poolOp{"QR/LQ/LU receivers reused for a second, smaller factorization", func(r *opRand, n int) []float64 {
			var qr mat.QR
			var lq mat.LQ
			var lu mat.LU
			var out []float64
			for pass := 0; pass < 2; pass++ {
				k := n // a factorization receiver can only be reused for the same shape
				a := r.dense(k+1, k)
				qr.Factorize(a)
				lq.Factorize(a.T())
				lu.Factorize(r.wellCond(k))
				var q, l, x, y, z mat.Dense
				qr.QTo(&q)
				lq.QTo(&l)
				e1 := qr.SolveTo(&x, false, r.dense(k+1, 1))
				e2 := lq.SolveTo(&y, false, r.dense(k, 1))
				e3 := lu.SolveTo(&z, true, r.dense(k, 2))
				out = append(out, flat(&q, &l, &x, &y, &z)...)
				out = append(out, errf(e1), errf(e2), errf(e3), qr.At(k, k-1), qr.At(0, 0))
			}
			return out
		}},
		poolOp{"QR.At before Q is formed / LU.RankOne into a used receiver", func(r *opRand, n int) []float64 {
			a := r.dense(n+1, n)
			var qr mat.QR
			qr.Factorize(a)
			out := []float64{}
			for i := 0; i < n+1; i++ {
				for j := 0; j < n; j++ {
					out = append(out, qr.At(i, j))
				}
			}
			var lu, up mat.LU
			lu.Factorize(r.wellCond(n))
			up.Factorize(r.wellCond(n))
			up.RankOne(&lu, 0.5, r.vec(n), r.vec(n))
			var l, u mat.TriDense
			up.LTo(&l)
			up.UTo(&u)
			lu.RankOne(&lu, -0.25, r.vec(n), r.vec(n))
			var l2 mat.TriDense
			lu.LTo(&l2)
			return append(out, flat(&l, &u, &l2)...)
		}},
		poolOp{"Dense.Mul(Dense, SymDense/TriDense/VecDense) with transposes", func(r *opRand, n int) []float64 {
			a, at := r.dense(n+1, n), r.dense(n, n+1)
			s := r.sym(n)
			tu, tl := r.tri(n, mat.Upper), r.tri(n, mat.Lower)
			v := r.vec(n)
			col := r.dense(n+1, 1)
			var m1, m2, m3, m4, m5, m6, m7, m8, m9 mat.Dense
			m1.Mul(a, s)
			m2.Mul(at.T(), s)
			m3.Mul(a, tu)
			m4.Mul(at.T(), tl)
			m5.Mul(at.T(), tu.T())
			m6.Mul(a, tl.T())
			m7.Mul(a, v)
			m8.Mul(at.T(), v)
			m9.Mul(col, v.T())
			return flat(&m1, &m2, &m3, &m4, &m5, &m6, &m7, &m8, &m9)
		}},
		poolOp{"Dense.Mul(SymDense/TriDense/VecDense, Dense) with transposes", func(r *opRand, n int) []float64 {
			b, bt := r.dense(n, n+1), r.dense(n+1, n)
			s := r.sym(n)
			tu, tl := r.tri(n, mat.Upper), r.tri(n, mat.Lower)
			v := r.vec(n)
			row := r.dense(1, n+1)
			var m1, m2, m3, m4, m5, m6, m7, m8, m9 mat.Dense
			m1.Mul(s, b)
			m2.Mul(s, bt.T())
			m3.Mul(tu, b)
			m4.Mul(tl, bt.T())
			m5.Mul(tu.T(), bt.T())
			m6.Mul(tl.T(), b)
			m7.Mul(v.T(), b)
			m8.Mul(v.T(), bt.T())
			m9.Mul(v, row)
			return flat(&m1, &m2, &m3, &m4, &m5, &m6, &m7, &m8, &m9)
		}},
		poolOp{"Dense.Mul(general path: banded, diagonal, symmetric operands)", func(r *opRand, n int) []float64 {
			bd := r.band(n, min(1, n-1), min(1, n-1))
			sb := r.symBand(n, min(1, n-1))
			dg := mat.NewDiagDense(n, r.vec(n).RawVector().Data)
			s := r.sym(n)
			tu := r.tri(n, mat.Upper)
			var m1, m2, m3, m4, m5 mat.Dense
			m1.Mul(bd, sb)
			m2.Mul(dg, bd.T())
			m3.Mul(s, tu)
			m4.Mul(tu.T(), s)
			m5.Mul(s, s)
			return flat(&m1, &m2, &m3, &m4, &m5)
		}},
		poolOp{"Dense.Pow(0,1,2) / Product(0,1,2 factors, long chain with temporaries on both sides)", func(r *opRand, n int) []float64 {
			a := r.dense(n, n)
			var p0, p1, p2, e, q1, q2, q5 mat.Dense
			p0.Pow(a, 0)
			p1.Pow(a, 1)
			p2.Pow(a, 2)
			e.Product()
			q1.Product(a)
			q2.Product(a, r.dense(n, 2))
			// dimensions chosen so that the optimal order parenthesises both ends: (AB)(CD)E...
			q5.Product(r.dense(n+4, 2), r.dense(2, n+3), r.dense(n+3, 1), r.dense(1, n+5), r.dense(n+5, 2), r.dense(2, n))
			// (AB)(CD): both operands of the last product are pooled temporaries
			var q4 mat.Dense
			q4.Product(r.dense(2, n+4), r.dense(n+4, 2), r.dense(2, n+4), r.dense(n+4, 2))
			return flat(&p0, &p1, &p2, &q1, &q2, &q5, &q4)
		}},
		poolOp{"Dense.Inverse(receiver is the argument, transposed argument, non-Dense argument)", func(r *opRand, n int) []float64 {
			a := r.wellCond(n)
			b := r.wellCond(n)
			e1 := a.Inverse(a)
			e2 := b.Inverse(b.T())
			var c, d mat.Dense
			e3 := c.Inverse(r.spd(n))
			e4 := d.Inverse(r.tri(n, mat.Lower))
			// an overlapping view of a larger backing matrix as the receiver
			big := r.wellCond(n + 2)
			big0 := mat.DenseCopyOf(big)
			view := big.Slice(0, n, 0, n).(*mat.Dense)
			var iv mat.Dense
			e5 := iv.Inverse(view)
			return append(flat(a, b, &c, &d, &iv, big, big0), errf(e1), errf(e2), errf(e3), errf(e4), errf(e5))
		}},
		poolOp{"TriDense/TriBandDense/Tridiag SolveTo(dst is b, dst is transposed b, trans)", func(r *opRand, n int) []float64 {
			tu := r.tri(n, mat.Upper)
			x := r.dense(n, n)
			y := r.dense(n, n)
			e1 := tu.SolveTo(x, false, x)
			e2 := tu.SolveTo(y, true, y.T())
			tb := mat.NewTriBandDense(n, min(1, n-1), mat.Lower, nil)
			for i := 0; i < n; i++ {
				tb.SetTriBand(i, i, float64(n)+r.next())
				if i > 0 {
					tb.SetTriBand(i, i-1, r.next())
				}
			}
			x2 := r.dense(n, n)
			y2 := r.dense(n, n)
			e3 := tb.SolveTo(x2, false, x2)
			e4 := tb.SolveTo(y2, true, y2.T())
			td := mat.NewTridiag(n, nil, nil, nil)
			for i := 0; i < n; i++ {
				td.SetBand(i, i, 8+r.next())
				if i > 0 {
					td.SetBand(i, i-1, r.next())
					td.SetBand(i-1, i, r.next())
				}
			}
			x3 := r.dense(n, n)
			y3 := r.dense(n, n)
			var z3 mat.Dense
			e5 := td.SolveTo(x3, false, x3)
			e6 := td.SolveTo(y3, true, y3.T())
			e7 := td.SolveTo(&z3, true, r.dense(n, 2))
			return append(flat(x, y, x2, y2, x3, y3, &z3), errf(e1), errf(e2), errf(e3), errf(e4), errf(e5), errf(e6), errf(e7))
		}},
		poolOp{"Band/SymBand/Tridiag MulVecTo(dst is x, x not a VecDense, trans)", func(r *opRand, n int) []float64 {
			bd := r.band(n, min(1, n-1), min(2, n-1))
			sb := r.symBand(n, min(2, n-1))
			td := mat.NewTridiag(n, nil, nil, nil)
			for i := 0; i < n; i++ {
				td.SetBand(i, i, r.next())
				if i > 0 {
					td.SetBand(i, i-1, r.next())
					td.SetBand(i-1, i, r.next())
				}
			}
			x1, x2, x3, x4 := r.vec(n), r.vec(n), r.vec(n), r.vec(n)
			bd.MulVecTo(x1, false, x1)
			bd.MulVecTo(x2, true, x2)
			sb.MulVecTo(x3, false, x3)
			td.MulVecTo(x4, true, x4)
			// a Vector that is not a *VecDense: a column view of a Dense
			cols := r.dense(n, 2)
			var y1, y2, y3 mat.VecDense
			bd.MulVecTo(&y1, true, rowAsVector{cols.T(), 1})
			sb.MulVecTo(&y2, false, rowAsVector{cols.T(), 1})
			td.MulVecTo(&y3, false, rowAsVector{cols.T(), 0})
			return flat(x1, x2, x3, x4, &y1, &y2, &y3)
		}},
		poolOp{"SymDense.SymOuterK(receiver is x; symmetric and triangular x) / SymRankOne into a sized receiver", func(r *opRand, n int) []float64 {
			s := r.sym(n)
			s.SymOuterK(0.5, s)
			s2 := r.sym(n)
			s2.SymOuterK(2, r.sym(n))
			s3 := r.sym(n)
			s3.SymOuterK(-1, r.tri(n, mat.Upper))
			s4 := r.sym(n)
			s4.SymOuterK(1, r.band(n, min(1, n-1), min(1, n-1)))
			var c0, c1 mat.Cholesky
			c0.Factorize(r.spd(n))
			c1.Factorize(r.spd(n))
			ok := c1.SymRankOne(&c0, 0.5, r.vec(n))
			// a Vector that is not a RawVectorer
			ok2 := true
			func() {
				defer func() {
					if recover() != nil {
						ok2 = false
					}
				}()
				c1.SymRankOne(&c1, 0.25, rowAsVector{r.dense(1, n), 0})
			}()
			var u mat.TriDense
			c1.UTo(&u)
			return append(flat(s, s2, s3, s4, &u), b2f(ok), b2f(ok2))
		}},
		poolOp{"SVD kinds (none, full, thin) and solves with each", func(r *opRand, n int) []float64 {
			a := r.dense(n+2, n)
			var out []float64
			for _, kind := range []mat.SVDKind{mat.SVDNone, mat.SVDFull, mat.SVDThin, mat.SVDFullU | mat.SVDThinV, mat.SVDThinU | mat.SVDFullV} {
				var svd mat.SVD
				ok := svd.Factorize(a, kind)
				out = append(out, b2f(ok))
				out = append(out, svd.Values(nil)...)
				if kind != mat.SVDNone {
					var x mat.Dense
					var xv mat.VecDense
					res := svd.SolveTo(&x, r.dense(n+2, 2), max(1, n-1))
					rv := svd.SolveVecTo(&xv, r.vec(n+2), n)
					out = append(out, flat(&x, &xv)...)
					out = append(out, res...)
					out = append(out, rv)
				}
			}
			return out
		}},
		poolOp{"failed and degenerate factorizations (singular triangular inverse, indefinite band Cholesky, downdate to indefinite)", func(r *opRand, n int) []float64 {
			t := r.tri(n, mat.Upper)
			t.SetTri(n/2, n/2, 0)
			var ti mat.TriDense
			e1 := ti.InverseTri(t)
			var x mat.Dense
			e2 := t.SolveTo(&x, false, r.dense(n, 1))
			sb := r.symBand(n, min(1, n-1))
			sb.SetSymBand(n-1, n-1, -3)
			var bc mat.BandCholesky
			ok := bc.Factorize(sb)
			ok2 := bc.Factorize(r.symBand(n, min(1, n-1)))
			var c mat.Cholesky
			c.Factorize(r.spd(n))
			big := r.vec(n)
			big.ScaleVec(64, big)
			ok3 := c.SymRankOne(&c, -1, big)
			// ill conditioned but non-singular triangular matrix
			t2 := r.tri(n, mat.Lower)
			t2.SetTri(0, 0, 1e-18)
			var ti2 mat.TriDense
			e3 := ti2.InverseTri(t2)
			var x2 mat.Dense
			e4 := t2.SolveTo(&x2, true, r.dense(n, 1))
			// singular systems through the transposed QR / LQ solves and the banded solvers
			sing := r.dense(n+2, n)
			for i := 0; i < n+2; i++ {
				sing.Set(i, n-1, 0)
			}
			var qr mat.QR
			qr.Factorize(sing)
			var lq mat.LQ
			lq.Factorize(sing.T())
			var x3, x4, x5, x6 mat.Dense
			e5 := qr.SolveTo(&x3, true, r.dense(n, 1))
			e6 := lq.SolveTo(&x4, true, r.dense(n+2, 1))
			tb := mat.NewTriBandDense(n, 0, mat.Upper, nil)
			td := mat.NewTridiag(n, nil, nil, nil)
			for i := 0; i < n-1; i++ {
				tb.SetTriBand(i, i, 1+r.next()*0.125)
				td.SetBand(i, i, 1+r.next()*0.125)
			}
			e7 := tb.SolveTo(&x5, false, r.dense(n, 1))
			e8 := td.SolveTo(&x6, false, r.dense(n, 1))
			return append(flat(&x2), errf(e1), errf(e2), b2f(ok), b2f(ok2), b2f(ok3), errf(e3), errf(e4), bc.Cond(), errf(e5), errf(e6), errf(e7), errf(e8))
		}},
		poolOp{"CDense.Conj(receiver is the transposed argument)", func(r *opRand, n int) []float64 {
			c := mat.NewCDense(n, n, nil)
			for i := 0; i < n; i++ {
				for j := 0; j < n; j++ {
					c.Set(i, j, complex(r.next(), r.next()))
				}
			}
			c.Conj(c.T())
			var out []float64
			for i := 0; i < n; i++ {
				for j := 0; j < n; j++ {
					out = append(out, real(c.At(i, j)), imag(c.At(i, j)))
				}
			}
			return out
		}},
		poolOp{"Eigen(left and right vectors, complex pairs) / EigenSym values only", func(r *opRand, n int) []float64 {
			a := r.dense(n, n)
			// a rotation block guarantees a complex conjugate pair
			if n >= 2 {
				a.Set(0, 0, 0)
				a.Set(1, 1, 0)
				a.Set(0, 1, 3)
				a.Set(1, 0, -3)
			}
			var out []float64
			for _, kind := range []mat.EigenKind{mat.EigenNone, mat.EigenLeft, mat.EigenRight, mat.EigenBoth} {
				var e mat.Eigen
				ok := e.Factorize(a, kind)
				out = append(out, b2f(ok))
				for _, v := range e.Values(nil) {
					out = append(out, real(v), imag(v))
				}
				var vec mat.CDense
				if kind&mat.EigenRight != 0 {
					e.VectorsTo(&vec)
					for i := 0; i < n; i++ {
						for j := 0; j < n; j++ {
							out = append(out, real(vec.At(i, j)), imag(vec.At(i, j)))
						}
					}
				}
				var lvec mat.CDense
				if kind&mat.EigenLeft != 0 {
					e.LeftVectorsTo(&lvec)
					for i := 0; i < n; i++ {
						for j := 0; j < n; j++ {
							out = append(out, real(lvec.At(i, j)), imag(lvec.At(i, j)))
						}
					}
				}
			}
			var es mat.EigenSym
			ok := es.Factorize(r.sym(n), false)
			return append(append(out, es.Values(nil)...), b2f(ok))
		}},
	)
}

// rowAsVector presents row i of a Matrix as a mat.Vector that is none of
// mat's concrete vector types.
type rowAsVector struct {
	m mat.Matrix
	i int
}

func (v rowAsVector) Dims() (int, int) { _, c := v.m.Dims(); return c, 1 }
func (v rowAsVector) At(i, j int) float64 {
	if j != 0 {
		panic("column index")
	}
	return v.m.At(v.i, i)
}
func (v rowAsVector) T() mat.Matrix       { return mat.Transpose{Matrix: v} }
func (v rowAsVector) AtVec(i int) float64 { return v.m.At(v.i, i) }
func (v rowAsVector) Len() int            { _, c := v.m.Dims(); return c }
