package main

import (
	"fmt"
	"math"

	"gonum.org/v1/gonum/integrate/quad"
	"verif/simrt"
)

// S2: quad.Fixed with concurrent in 0..n+2 (DESIGN.md section 4).

// onlyLocationer hides Legendre's FixedLocationSingle so that the
// FixedLocationer path of Fixed is exercised.
type onlyLocationer struct{ r quad.FixedLocationer }

func (o onlyLocationer) FixedLocations(x, w []float64, min, max float64) {
	o.r.FixedLocations(x, w, min, max)
}

// dyadicRule is a harness rule whose nodes and weights are dyadic rationals
// (a composite midpoint rule on a power-of-two grid): with an integer
// polynomial integrand every term and every partial sum is exact, so any
// reduction order must give the same bits.
type dyadicRule struct{}

func (dyadicRule) FixedLocations(x, w []float64, min, max float64) {
	n := len(x)
	for i := range x {
		x[i] = min + (max-min)*(float64(2*i+1)/float64(2*n))
		w[i] = (max - min) / float64(n)
	}
}

type dyadicSingler struct{ dyadicRule }

func (dyadicSingler) FixedLocationSingle(n, k int, min, max float64) (float64, float64) {
	return min + (max-min)*(float64(2*k+1)/float64(2*n)), (max - min) / float64(n)
}

type quadInst struct {
	n, conc  int
	min, max float64
	rule     quad.FixedLocationer
	ruleName string
	f        func(float64) float64
	fName    string
	exact    bool
}

func drawQuad(t *simrt.Tape) *quadInst {
	q := &quadInst{}
	q.n = 1 + t.Choose(simrt.KWorkload, 40*scale)
	q.conc = t.Choose(simrt.KWorkload, q.n+3)
	q.min, q.max = -1, 3
	switch t.Choose(simrt.KWorkload, 8) {
	case 0:
		q.rule, q.ruleName = quad.Legendre{}, "Legendre(singler)"
	case 1:
		q.rule, q.ruleName = onlyLocationer{quad.Legendre{}}, "Legendre(locationer)"
	case 2:
		q.rule, q.ruleName = quad.Hermite{}, "Hermite"
		q.min, q.max = math.Inf(-1), math.Inf(1)
	case 3:
		// power-of-two n and interval: dyadic nodes and weights
		q.n = 1 << t.Choose(simrt.KWorkload, 6)
		q.conc = t.Choose(simrt.KWorkload, q.n+3)
		q.rule, q.ruleName, q.exact = dyadicRule{}, "dyadic(locationer)", true
		q.min, q.max = -2, 2
	case 4:
		q.n = 1 << t.Choose(simrt.KWorkload, 6)
		q.conc = t.Choose(simrt.KWorkload, q.n+3)
		q.rule, q.ruleName, q.exact = dyadicSingler{}, "dyadic(singler)", true
		q.min, q.max = -2, 2
	case 5:
		q.rule, q.ruleName = nil, "nil(-inf,inf)"
		q.min, q.max = math.Inf(-1), math.Inf(1)
	case 6:
		q.rule, q.ruleName = nil, "nil(a,inf)"
		q.min, q.max = 0.5, math.Inf(1)
	case 7:
		q.rule, q.ruleName = nil, "nil(-inf,b)"
		q.min, q.max = math.Inf(-1), 1.5
	}
	if q.exact {
		// integer polynomial of degree <= 3 with small coefficients
		var c [4]float64
		for i := range c {
			c[i] = float64(t.Choose(simrt.KValue, 9) - 4)
		}
		q.f = func(x float64) float64 { return ((c[3]*x+c[2])*x+c[1])*x + c[0] }
		q.fName = fmt.Sprintf("poly%v", c)
	} else {
		switch t.Choose(simrt.KWorkload, 3) {
		case 0:
			q.f, q.fName = func(x float64) float64 { return math.Exp(-x * x) }, "exp(-x^2)"
		case 1:
			q.f, q.fName = func(x float64) float64 { return math.Sin(3*x) * math.Exp(-x*x/2) }, "sin(3x)exp(-x^2/2)"
		case 2:
			q.f, q.fName = func(x float64) float64 { return 1 / (1 + x*x*x*x) }, "1/(1+x^4)"
		}
	}
	return q
}

func init() {
	register(&Scenario{Name: "quad", Props: []string{"C09"}, Run: runQuad})
}

func runQuad(t *simrt.Tape, rc *RunCtx) *Violation {
	q := drawQuad(t)
	rc.Instance["n"] = q.n
	rc.Instance["concurrent"] = q.conc
	rc.Instance["rule"] = q.ruleName
	rc.Instance["f"] = q.fName
	rc.declare("concurrent>n", "concurrent==1", "evaluations_overlapped", "exact_arithmetic_instance")
	const prop = "C09"
	log := newCallLog(128 * scale)

	// Reference: the serial path, and the sum of |terms| for the rounding bound.
	serial := quad.Fixed(func(x float64) float64 { log.enter(x); defer log.leave(); return q.f(x) }, q.min, q.max, q.n, q.rule, 0)
	wantArgs := log.sorted()
	absSum := quad.Fixed(func(x float64) float64 { return math.Abs(q.f(x)) }, q.min, q.max, q.n, q.rule, 0)
	rc.oracle("serial-call-count")
	if len(wantArgs) != q.n {
		return &Violation{prop, "quad/serial-call-count", fmt.Sprintf("serial Fixed called f %d times, documented n=%d", len(wantArgs), q.n)}
	}

	cfg := drawConfig(t, 20*q.n+50)
	rc.Instance["policy"] = cfg.Policy.String()
	rc.Instance["gomaxprocs"] = cfg.GOMAXPROCS
	log.reset()
	var got float64
	f := func(x float64) float64 {
		log.enter(x)
		perturb()
		v := q.f(x)
		log.leave()
		return v
	}
	_, v := rc.Sim(prop, t, cfg, func() {
		got = quad.Fixed(f, q.min, q.max, q.n, q.rule, q.conc)
		log.close()
	})
	if v != nil {
		return v
	}
	if q.conc > q.n {
		rc.probe("concurrent>n", 1)
	}
	if q.conc == 1 {
		rc.probe("concurrent==1", 1)
	}
	if log.maxIn > 1 {
		rc.probe("evaluations_overlapped", 1)
	}
	if q.exact {
		rc.probe("exact_arithmetic_instance", 1)
	}
	rc.oracle("no-evaluation-after-return")
	if log.late > 0 {
		return &Violation{prop, "quad/evaluation-after-return", fmt.Sprintf("%d evaluation(s) of f were running or started after Fixed had returned (concurrent=%d)", log.late, q.conc)}
	}
	// (b) documented number of calls, at the rule's locations, each once
	rc.oracle("call-count")
	if log.count() != q.n {
		return &Violation{prop, "quad/call-count", fmt.Sprintf("f was called %d times with concurrent=%d; documented: n=%d times", log.count(), q.conc, q.n)}
	}
	rc.oracle("call-locations")
	gotArgs := log.sorted()
	for i := range wantArgs {
		if math.Float64bits(gotArgs[i]) != math.Float64bits(wantArgs[i]) {
			return &Violation{prop, "quad/call-locations", fmt.Sprintf("concurrent evaluation points differ from the rule's locations: sorted[%d]=%v, serial %v", i, gotArgs[i], wantArgs[i])}
		}
	}
	// (c) at most `concurrent` simultaneous evaluations
	limit := q.conc
	if limit < 1 {
		limit = 1
	}
	rc.oracle("max-in-flight")
	if log.maxIn > limit {
		return &Violation{prop, "quad/max-in-flight", fmt.Sprintf("%d evaluations of f in flight at once with concurrent=%d", log.maxIn, q.conc)}
	}
	// (d) the serial answer
	rc.oracle("serial-answer")
	if q.conc <= 1 || q.exact {
		if math.Float64bits(got) != math.Float64bits(serial) {
			return &Violation{prop, "quad/serial-answer-bits", fmt.Sprintf("concurrent=%d result %v (%#x) is not bit-identical to the serial result %v (%#x) although the reduction order is fixed / arithmetic is exact", q.conc, got, math.Float64bits(got), serial, math.Float64bits(serial))}
		}
	} else {
		tol := 2 * float64(q.n) * 0x1p-53 * absSum
		if !(math.Abs(got-serial) <= tol) {
			return &Violation{prop, "quad/serial-answer-rounding", fmt.Sprintf("concurrent=%d result %v differs from serial %v by %g > rounding bound %g", q.conc, got, serial, math.Abs(got-serial), tol)}
		}
	}
	return nil
}
