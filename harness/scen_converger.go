package main

import (
	"fmt"
	"math"

	"gonum.org/v1/gonum/optimize"
	"verif/simrt"
)

// Scenario "converger" (C19, "the status names the condition that stopped the
// run"): optimize.FunctionConverge fed a sequence of best-so-far values
// directly, against its documented rule - FunctionConvergence "if there is no
// significant decrease for FunctionConverge.Iterations", a decrease being
// significant if f < f_best and f_best - f > Relative*maxabs(f, f_best) +
// Absolute; Iterations == 0 "has no effect". Sequences start with +Inf or NaN
// in some runs (what a global method announces while every evaluation so far
// was non-finite): a decrease from a non-finite best value to a number is
// significant whatever 0*Inf evaluates to.
//
// A pure function of its input; the simulator contributes the generator and the
// replay file.

func init() {
	register(&Scenario{Name: "converger", Props: []string{"C19"}, Run: runConverger})
}

func runConverger(t *simrt.Tape, rc *RunCtx) *Violation {
	rc.declare("sequence_starts_non_finite", "converged", "iterations_zero")
	abs := []float64{0, 1e-10, 1e-3, 0.5}[t.Choose(simrt.KWorkload, 4)]
	rel := []float64{0, 1e-6, 0.05}[t.Choose(simrt.KWorkload, 3)]
	iters := []int{0, 1, 2, 3, 5}[t.Choose(simrt.KWorkload, 5)]
	n := 2 + t.Choose(simrt.KWorkload, 14)
	fs := make([]float64, n)
	cur := float64(t.Choose(simrt.KValue, 64))
	for i := range fs {
		switch t.Choose(simrt.KValue, 6) {
		case 0:
			cur -= 1
		case 1:
			cur -= 1e-4
		case 2:
			cur -= 1e-12
		case 3:
			cur += 0.25
		case 4:
			cur -= float64(t.Choose(simrt.KValue, 8))
		}
		fs[i] = cur
	}
	switch t.Choose(simrt.KWorkload, 5) {
	case 3:
		fs[0] = math.Inf(1)
		rc.probe("sequence_starts_non_finite", 1)
	case 4:
		fs[0] = math.NaN()
		if n > 3 && t.Choose(simrt.KWorkload, 2) == 1 {
			fs[1] = math.Inf(1)
		}
		rc.probe("sequence_starts_non_finite", 1)
	}
	rc.Instance["FunctionConverge"] = fmt.Sprintf("Absolute %v Relative %v Iterations %d", abs, rel, iters)
	rc.Instance["values"] = fmt.Sprint(fs)
	if iters == 0 {
		rc.probe("iterations_zero", 1)
	}
	// the documented rule
	want := -1
	best, count := 0.0, 0
	for i, f := range fs {
		if i == 0 {
			best = f
			continue
		}
		if iters == 0 {
			continue
		}
		if (f < best && (math.IsInf(best, 1) || best-f > rel*math.Max(math.Abs(f), math.Abs(best))+abs)) || (math.IsNaN(best) && !math.IsNaN(f)) {
			best, count = f, 0
			continue
		}
		count++
		if count >= iters {
			want = i
			break
		}
	}
	fc := &optimize.FunctionConverge{Absolute: abs, Relative: rel, Iterations: iters}
	// used twice: Init must bring it back to its initial state
	for round := 0; round < 2; round++ {
		fc.Init(1)
		got := -1
		for i, f := range fs {
			if st := fc.Converged(&optimize.Location{F: f}); st != optimize.NotTerminated {
				if st != optimize.FunctionConvergence {
					return &Violation{"C19", "converger/status", fmt.Sprintf("FunctionConverge.Converged returned %v", st)}
				}
				got = i
				break
			}
		}
		rc.oracle("function-converge-rule")
		if got >= 0 {
			rc.probe("converged", 1)
		}
		if got != want {
			return &Violation{"C19", "converger/function-converge-rule", fmt.Sprintf("FunctionConverge{Absolute: %v, Relative: %v, Iterations: %d} fed %v (use %d of the value) reports FunctionConvergence at index %d, the documented rule gives %d (-1 = never)", abs, rel, iters, fs, round+1, got, want)}
		}
	}
	return nil
}
