package main

import (
	"fmt"
	"math"
	"math/rand/v2"

	"gonum.org/v1/gonum/mat"
	"gonum.org/v1/gonum/stat"
	"gonum.org/v1/gonum/stat/distmv"
	"verif/simrt"
)

// S4: independent mat / lapack / stat operations from K goroutines sharing
// mat's workspace pools (DESIGN.md section 4).

// opRand generates an operation's operands deterministically from a seed, so
// that the reference execution and the simulated one work on identical data.
type opRand struct {
	s uint64
	// When viewStride > 0, dense() hands out views of wider matrices: the
	// r x c result sits at column viewOff of an r x viewStride matrix, so
	// that operands have the stride (and column offset) of the receiver's
	// backing matrix. Used by the views scenario.
	viewStride, viewOff int
}

func (r *opRand) next() float64 {
	r.s += 0x9e3779b97f4a7c15
	z := r.s
	z = (z ^ (z >> 30)) * 0xbf58476d1ce4e5b9
	z = (z ^ (z >> 27)) * 0x94d049bb133111eb
	z ^= z >> 31
	return float64(int64(z>>40)-(1<<23)) / (1 << 21) // [-4, 4)
}

func (r *opRand) dense(m, n int) *mat.Dense {
	if r.viewStride > 0 && r.viewOff+n <= r.viewStride && r.viewStride > n {
		wide := mat.NewDense(m, r.viewStride, nil)
		for i := 0; i < m; i++ {
			for j := 0; j < r.viewStride; j++ {
				wide.Set(i, j, r.next())
			}
		}
		return wide.Slice(0, m, r.viewOff, r.viewOff+n).(*mat.Dense)
	}
	d := mat.NewDense(m, n, nil)
	for i := 0; i < m; i++ {
		for j := 0; j < n; j++ {
			d.Set(i, j, r.next())
		}
	}
	return d
}

func (r *opRand) vec(n int) *mat.VecDense {
	v := mat.NewVecDense(n, nil)
	for i := 0; i < n; i++ {
		v.SetVec(i, r.next())
	}
	return v
}

// spd returns a well conditioned symmetric positive definite matrix.
func (r *opRand) spd(n int) *mat.SymDense {
	m := r.dense(n, n)
	s := mat.NewSymDense(n, nil)
	for i := 0; i < n; i++ {
		for j := i; j < n; j++ {
			var v float64
			for k := 0; k < n; k++ {
				v += m.At(k, i) * m.At(k, j)
			}
			if i == j {
				v += float64(4 * n)
			}
			s.SetSym(i, j, v)
		}
	}
	return s
}

// wellCond returns a diagonally dominant square matrix.
func (r *opRand) wellCond(n int) *mat.Dense {
	d := r.dense(n, n)
	for i := 0; i < n; i++ {
		d.Set(i, i, d.At(i, i)+float64(4*n+4))
	}
	return d
}

func flat(ms ...mat.Matrix) []float64 {
	var out []float64
	for _, m := range ms {
		r, c := m.Dims()
		for i := 0; i < r; i++ {
			for j := 0; j < c; j++ {
				out = append(out, m.At(i, j))
			}
		}
	}
	return out
}

func b2f(b bool) float64 {
	if b {
		return 1
	}
	return 0
}

func errf(err error) float64 { return b2f(err != nil) }

type poolOp struct {
	name string
	run  func(r *opRand, n int) []float64
}

var poolOps = []poolOp{
	{"Dense.Mul(receiver aliases operand)", func(r *opRand, n int) []float64 {
		a, b := r.dense(n, n), r.dense(n, n)
		b0 := mat.DenseCopyOf(b)
		a.Mul(a, b)
		return append(flat(a), flat(b, b0)...)
	}},
	{"Dense.Mul(receiver aliases transposed operand)", func(r *opRand, n int) []float64 {
		a, b := r.dense(n, n), r.dense(n, n)
		a.Mul(b, a.T())
		return flat(a)
	}},
	{"Dense.Product", func(r *opRand, n int) []float64 {
		a, b, c := r.dense(n, n+1), r.dense(n+1, 2), r.dense(2, n)
		var p mat.Dense
		p.Product(a, b, c)
		return flat(&p)
	}},
	{"Dense.Pow", func(r *opRand, n int) []float64 {
		a := r.dense(n, n)
		var p mat.Dense
		p.Pow(a, 3+n%3)
		return flat(&p)
	}},
	{"Dense.Exp", func(r *opRand, n int) []float64 {
		a := r.dense(n, n)
		a.Scale(0.125, a)
		var e mat.Dense
		e.Exp(a)
		return flat(&e)
	}},
	{"Dense.Inverse", func(r *opRand, n int) []float64 {
		a := r.wellCond(n)
		var inv mat.Dense
		err := inv.Inverse(a)
		return append(flat(&inv), errf(err))
	}},
	{"Dense.Solve", func(r *opRand, n int) []float64 {
		a, b := r.wellCond(n), r.dense(n, 2)
		var x mat.Dense
		err := x.Solve(a, b)
		return append(flat(&x), errf(err))
	}},
	{"Dense.Solve(least squares)", func(r *opRand, n int) []float64 {
		a, b := r.dense(n+2, n), r.dense(n+2, 1)
		var x mat.Dense
		err := x.Solve(a, b)
		return append(flat(&x), errf(err))
	}},
	{"VecDense.MulVec(aliased)", func(r *opRand, n int) []float64 {
		a, v := r.dense(n, n), r.vec(n)
		v.MulVec(a, v)
		return flat(v)
	}},
	{"VecDense.SolveVec", func(r *opRand, n int) []float64 {
		a, b := r.wellCond(n), r.vec(n)
		var x mat.VecDense
		err := x.SolveVec(a, b)
		return append(flat(&x), errf(err))
	}},
	{"SymDense.SymOuterK/SymRankK", func(r *opRand, n int) []float64 {
		x := r.dense(n, 3)
		var s mat.SymDense
		s.SymOuterK(0.5, x)
		s2 := r.spd(n)
		s2.SymRankK(s2, 2, x)
		return append(flat(&s), flat(s2)...)
	}},
	{"TriDense.MulTri/InverseTri", func(r *opRand, n int) []float64 {
		a, b := r.wellCond(n), r.wellCond(n)
		ta, tb := mat.NewTriDense(n, mat.Upper, nil), mat.NewTriDense(n, mat.Upper, nil)
		for i := 0; i < n; i++ {
			for j := i; j < n; j++ {
				ta.SetTri(i, j, a.At(i, j))
				tb.SetTri(i, j, b.At(i, j))
			}
		}
		var p, inv mat.TriDense
		p.MulTri(ta, tb)
		err := inv.InverseTri(ta)
		ta.MulTri(ta, tb) // aliased
		return append(append(flat(&p), flat(&inv)...), append(flat(ta), errf(err))...)
	}},
	{"Cholesky", func(r *opRand, n int) []float64 {
		s := r.spd(n)
		var c mat.Cholesky
		ok := c.Factorize(s)
		var x mat.Dense
		err := c.SolveTo(&x, r.dense(n, 2))
		var inv mat.SymDense
		err2 := c.InverseTo(&inv)
		var up mat.Cholesky
		ok2 := up.SymRankOne(&c, 0.5, r.vec(n))
		var ext mat.Cholesky
		v := r.vec(n + 1)
		v.SetVec(n, v.AtVec(n)+float64(8*n+8))
		ok3 := ext.ExtendVecSym(&c, v)
		var sc mat.Cholesky
		sc.Scale(2, &c)
		var u mat.TriDense
		up.UTo(&u)
		var es mat.SymDense
		ext.ToSym(&es)
		return append(append(append(flat(&x), flat(&inv)...), append(flat(&u), flat(&es)...)...), b2f(ok), b2f(ok2), b2f(ok3), errf(err), errf(err2), c.Cond(), c.LogDet(), sc.LogDet())
	}},
	{"LU", func(r *opRand, n int) []float64 {
		a := r.wellCond(n)
		var lu mat.LU
		lu.Factorize(a)
		var x mat.Dense
		err := lu.SolveTo(&x, n%2 == 0, r.dense(n, 2))
		ld, sign := lu.LogDet()
		var up mat.LU
		up.RankOne(&lu, 0.25, r.vec(n), r.vec(n))
		var u mat.TriDense
		up.UTo(&u)
		var l mat.TriDense
		up.LTo(&l)
		return append(append(flat(&x), flat(&u)...), append(flat(&l), lu.Cond(), ld, sign, errf(err))...)
	}},
	{"QR", func(r *opRand, n int) []float64 {
		a := r.dense(n+2, n)
		var qr mat.QR
		qr.Factorize(a)
		var q, rr, x mat.Dense
		qr.QTo(&q)
		qr.RTo(&rr)
		err := qr.SolveTo(&x, false, r.dense(n+2, 2))
		return append(append(flat(&q), flat(&rr)...), append(flat(&x), qr.Cond(), errf(err))...)
	}},
	{"LQ", func(r *opRand, n int) []float64 {
		a := r.dense(n, n+2)
		var lq mat.LQ
		lq.Factorize(a)
		var q, l, x mat.Dense
		lq.QTo(&q)
		lq.LTo(&l)
		err := lq.SolveTo(&x, false, r.dense(n, 2))
		return append(append(flat(&q), flat(&l)...), append(flat(&x), lq.Cond(), errf(err))...)
	}},
	{"SVD", func(r *opRand, n int) []float64 {
		a := r.dense(n+1, n)
		var svd mat.SVD
		ok := svd.Factorize(a, mat.SVDThin)
		var u, v mat.Dense
		svd.UTo(&u)
		svd.VTo(&v)
		return append(append(flat(&u), flat(&v)...), append(svd.Values(nil), b2f(ok), svd.Cond())...)
	}},
	{"EigenSym", func(r *opRand, n int) []float64 {
		s := r.spd(n)
		var es mat.EigenSym
		ok := es.Factorize(s, true)
		var v mat.Dense
		es.VectorsTo(&v)
		return append(append(flat(&v), es.Values(nil)...), b2f(ok))
	}},
	{"Eigen", func(r *opRand, n int) []float64 {
		a := r.dense(n, n)
		var e mat.Eigen
		ok := e.Factorize(a, mat.EigenBoth)
		out := []float64{b2f(ok)}
		for _, z := range e.Values(nil) {
			out = append(out, real(z), imag(z))
		}
		var v mat.CDense
		e.VectorsTo(&v)
		rr, cc := v.Dims()
		for i := 0; i < rr; i++ {
			for j := 0; j < cc; j++ {
				out = append(out, real(v.At(i, j)), imag(v.At(i, j)))
			}
		}
		return out
	}},
	{"stat.CovarianceMatrix/PC", func(r *opRand, n int) []float64 {
		x := r.dense(n+3, n)
		var cov mat.SymDense
		stat.CovarianceMatrix(&cov, x, nil)
		var pc stat.PC
		ok := pc.PrincipalComponents(x, nil)
		var vecs mat.Dense
		pc.VectorsTo(&vecs)
		return append(append(flat(&cov), flat(&vecs)...), append(pc.VarsTo(nil), b2f(ok))...)
	}},
	{"distmv.Normal", func(r *opRand, n int) []float64 {
		mu := make([]float64, n)
		for i := range mu {
			mu[i] = r.next()
		}
		nrm, ok := distmv.NewNormal(mu, r.spd(n), rand.NewPCG(uint64(n), 7))
		x := make([]float64, n)
		for i := range x {
			x[i] = r.next()
		}
		smp := nrm.Rand(nil)
		return append(smp, nrm.LogProb(x), b2f(ok))
	}},
	{"Dense.Mul(parallel size, aliased)", func(r *opRand, n int) []float64 {
		a, b := r.dense(130, 130), r.dense(130, 130)
		a.Mul(a, b)
		var s float64
		for _, v := range a.RawMatrix().Data {
			s += v
		}
		return []float64{s, a.At(0, 0), a.At(64, 64), a.At(129, 129), a.At(3, 127)}
	}},
	{"Dense.Permutation/Kronecker", func(r *opRand, n int) []float64 {
		a := r.dense(n, n)
		var k mat.Dense
		two := 2
		if n < 2 {
			two = 1
		}
		k.Kronecker(a.Slice(0, 1+n/2, 0, 1+n/3), a.Slice(0, two, 0, 1+n/2))
		var o mat.Dense
		o.Outer(0.5, r.vec(n), r.vec(n))
		o.Add(&o, a)
		return append(flat(&k), flat(&o)...)
	}},
}

// degenerate returns a square matrix that takes the error paths of the
// factorizations: an exactly singular one (a zero row), one whose norm
// overflows (the condition estimate is 0 although no pivot is), a nearly
// singular one, or a matrix with a NaN.
func (r *opRand) degenerate(n, kind int) *mat.Dense {
	a := r.wellCond(n)
	switch kind % 4 {
	case 0:
		for j := 0; j < n; j++ {
			a.Set(n/2, j, 0)
		}
	case 1:
		for i := 0; i < n; i++ {
			for j := 0; j < n; j++ {
				v := 1e308
				if (i+j)%2 == 1 && i >= j {
					v = -1e308
				}
				a.Set(i, j, v)
			}
		}
	case 2:
		for j := 0; j < n; j++ {
			a.Set(n-1, j, a.At(0, j)*(1+1e-15))
		}
	default:
		a.Set(0, n-1, math.NaN())
	}
	return a
}

func init() {
	poolOps = append(poolOps,
		poolOp{"Dense.Inverse(degenerate input)", func(r *opRand, n int) []float64 {
			a := r.degenerate(n, n)
			var inv mat.Dense
			err := inv.Inverse(a)
			out := []float64{errf(err)}
			if err == nil {
				out = append(out, flat(&inv)...)
			}
			return out
		}},
		poolOp{"Dense.Solve(degenerate input)", func(r *opRand, n int) []float64 {
			a, b := r.degenerate(n, n+1), r.dense(n, 2)
			var x mat.Dense
			err := x.Solve(a, b)
			out := []float64{errf(err)}
			if err == nil {
				out = append(out, flat(&x)...)
			}
			return out
		}},
		poolOp{"LU(degenerate input)", func(r *opRand, n int) []float64 {
			a := r.degenerate(n, n+2)
			var lu mat.LU
			lu.Factorize(a)
			var x mat.Dense
			err := lu.SolveTo(&x, false, r.dense(n, 1))
			ld, sign := lu.LogDet()
			out := []float64{errf(err), lu.Cond(), ld, sign}
			if err == nil {
				out = append(out, flat(&x)...)
			}
			return out
		}},
		poolOp{"Cholesky(not positive definite)", func(r *opRand, n int) []float64 {
			s := r.spd(n)
			s.SetSym(n-1, n-1, -1)
			var c mat.Cholesky
			ok := c.Factorize(s)
			out := []float64{b2f(ok)}
			// a failed factorization must leave the pools usable
			var c2 mat.Cholesky
			ok2 := c2.Factorize(r.spd(n))
			var x mat.Dense
			err := c2.SolveTo(&x, r.dense(n, 1))
			return append(append(out, b2f(ok2), errf(err)), flat(&x)...)
		}},
		poolOp{"Cholesky.SymRankOne(downdates, factors kept in use)", func(r *opRand, n int) []float64 {
			// several factorizations are downdated in turn and all of them are
			// used afterwards: a factor must not share storage with the pool
			var cs []*mat.Cholesky
			out := []float64{}
			for k := 0; k < 3; k++ {
				var c mat.Cholesky
				ok := c.Factorize(r.spd(n))
				x := r.vec(n)
				x.ScaleVec(0.125, x)
				var d mat.Cholesky
				ok2 := d.SymRankOne(&c, -1, x)
				ok3 := c.SymRankOne(&c, -0.5, x) // in place
				out = append(out, b2f(ok), b2f(ok2), b2f(ok3))
				cs = append(cs, &c, &d)
			}
			ta := mat.NewTriDense(n, mat.Upper, nil)
			for i := 0; i < n; i++ {
				for j := i; j < n; j++ {
					ta.SetTri(i, j, 1+r.next())
				}
			}
			ta.MulTri(ta, ta) // another user of the triangular workspace pool
			for _, c := range cs {
				var s mat.SymDense
				c.ToSym(&s)
				out = append(out, flat(&s)...)
				out = append(out, c.LogDet())
			}
			return append(out, flat(ta)...)
		}},
		poolOp{"QR/LQ SolveTo(rank deficient)", func(r *opRand, n int) []float64 {
			a := r.dense(n+2, n)
			for i := 0; i < n+2; i++ {
				a.Set(i, n-1, a.At(i, 0))
			}
			var qr mat.QR
			qr.Factorize(a)
			var x mat.Dense
			err := qr.SolveTo(&x, false, r.dense(n+2, 1))
			var lq mat.LQ
			lq.Factorize(a.T())
			var y mat.Dense
			err2 := lq.SolveTo(&y, false, r.dense(n, 1))
			out := []float64{errf(err), errf(err2), qr.Cond(), lq.Cond()}
			if err == nil {
				out = append(out, flat(&x)...)
			}
			if err2 == nil {
				out = append(out, flat(&y)...)
			}
			return out
		}},
		poolOp{"SVD/Eigen(degenerate input)", func(r *opRand, n int) []float64 {
			a := r.degenerate(n, n+3)
			if n%4 == 0 {
				a = r.degenerate(n, 0)
			}
			var svd mat.SVD
			ok := svd.Factorize(a, mat.SVDThin)
			out := []float64{b2f(ok)}
			if ok {
				out = append(out, svd.Values(nil)...)
			}
			var e mat.Eigen
			ok2 := e.Factorize(a, mat.EigenRight)
			out = append(out, b2f(ok2))
			if ok2 {
				for _, z := range e.Values(nil) {
					out = append(out, real(z), imag(z))
				}
			}
			return out
		}},
	)
}

type poolStep struct {
	op   int
	n    int
	seed uint64
}

func init() {
	register(&Scenario{Name: "pools", Props: []string{"C09"}, Run: runPools})
}

// resultLog holds per-client results written inside the simulation by
// exactly one goroutine each (no sharing), read after the join.
func runPools(t *simrt.Tape, rc *RunCtx) *Violation {
	const prop = "C09"
	rc.declare("clients>=4", "nested_parallel_gemm", "poisoned_workspace_reused")
	k := 2 + t.Choose(simrt.KWorkload, 4+scale)
	single := t.Choose(simrt.KWorkload, 8) == 7
	if single {
		k = 1 // a single client under dirty pools: reads-before-write of clear=false workspaces
	}
	plans := make([][]poolStep, k)
	desc := make([]string, k)
	for c := range plans {
		steps := 2 + t.Choose(simrt.KWorkload, 3+2*scale)
		for s := 0; s < steps; s++ {
			op := t.Choose(simrt.KWorkload, len(poolOps))
			n := 1 + t.Choose(simrt.KWorkload, 10)
			if t.Choose(simrt.KWorkload, 12) == 11 {
				n = 20 + t.Choose(simrt.KWorkload, 21)
			}
			plans[c] = append(plans[c], poolStep{op, n, uint64(t.Choose(simrt.KValue, 1<<30))})
			desc[c] += fmt.Sprintf("%s(n=%d); ", poolOps[op].name, n)
		}
	}
	rc.Instance["clients"] = k
	rc.Instance["plans"] = desc
	runPlan := func(p []poolStep) [][]float64 {
		var out [][]float64
		for _, st := range p {
			out = append(out, poolOps[st.op].run(&opRand{s: st.seed}, st.n))
		}
		return out
	}
	// reference: every client alone, pools always miss (fresh zeroed workspaces)
	ref := make([][][]float64, k)
	if _, v := rc.Sim(prop, simrt.ReplayTape(nil), baselineConfig(), func() {
		for c := range plans {
			ref[c] = runPlan(plans[c])
		}
	}); v != nil {
		v.Msg = "[reference: one client at a time, fresh workspaces] " + v.Msg
		return v
	}
	cfg := drawConfig(t, 200*k)
	cfg.PoolMode = simrt.PoolTape
	cfg.PoolPoison = t.Choose(simrt.KFault, 4) != 0
	rc.Instance["policy"] = cfg.Policy.String()
	rc.Instance["gomaxprocs"] = cfg.GOMAXPROCS
	rc.Instance["pool_poison"] = cfg.PoolPoison
	got := make([][][]float64, k)
	out, v := rc.Sim(prop, t, cfg, func() {
		var wg simrt.WaitGroup
		for c := 1; c < k; c++ {
			c := c
			wg.Add(1)
			simrt.Go(9100, func() {
				defer wg.Done()
				got[c] = runPlan(plans[c])
			})
		}
		got[0] = runPlan(plans[0])
		wg.Wait()
	})
	if v != nil {
		return v
	}
	if k >= 4 {
		rc.probe("clients>=4", 1)
	}
	if out.Goroutines > k {
		rc.probe("nested_parallel_gemm", 1)
	}
	rc.probe("poisoned_workspace_reused", out.Stats.PoolDirtyHit)
	rc.probe("pool_double_put_observed", out.Stats.PoolDoublePut)
	rc.oracle("workspace-returned-once")
	if out.Stats.PoolDoublePut > 0 {
		return &Violation{prop, "pools/workspace-returned-twice", fmt.Sprintf("a pooled workspace was put back while it was already in the pool (%d time(s)): two later users can be handed the same scratch memory; plans: %v", out.Stats.PoolDoublePut, desc)}
	}
	rc.oracle("same-results-as-alone")
	for c := range plans {
		for s := range plans[c] {
			a, b := ref[c][s], got[c][s]
			st := plans[c][s]
			if len(a) != len(b) {
				return &Violation{prop, "pools/result-differs", fmt.Sprintf("client %d step %d %s(n=%d): result has %d numbers, %d when run alone", c, s, poolOps[st.op].name, st.n, len(b), len(a))}
			}
			for i := range a {
				if math.Float64bits(a[i]) != math.Float64bits(b[i]) {
					sig := "pools/result-differs"
					why := fmt.Sprintf("with %d clients sharing the workspace pools", k)
					if k == 1 {
						sig = "pools/result-depends-on-pool-contents"
						why = "with a single client whose pooled workspaces are reused dirty"
					}
					return &Violation{prop, sig, fmt.Sprintf("client %d step %d %s(n=%d, seed %d): output %d is %v %s, %v when run alone with fresh workspaces (pool hits %d, poisoned hits %d, double puts %d)",
						c, s, poolOps[st.op].name, st.n, st.seed, i, b[i], why, a[i], out.Stats.PoolHit, out.Stats.PoolDirtyHit, out.Stats.PoolDoublePut)}
				}
			}
		}
	}
	return nil
}
