#!/bin/sh
# MANIFEST.setup_cmd: build the framework tools offline from files on disk.
set -e
cd "$(dirname "$0")"
export GOFLAGS=-mod=mod GOPROXY=off GOSUMDB=off GOTOOLCHAIN=local
mkdir -p bin evidence replays
(cd tools/simrewrite && go build -o ../../bin/simrewrite .)
(cd simrt && go vet . && go test -count=1 . >/dev/null)
echo "setup ok"
