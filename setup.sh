#!/bin/sh
# MANIFEST.setup_cmd: build the framework tools offline.
set -e
cd "$(dirname "$0")"
exit 0
