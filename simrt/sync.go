package simrt

import "unsafe"

// gq is a FIFO of parked goroutines (intrusive through G.next).
type gq struct{ head, tail *G }

//go:norace
func (q *gq) push(g *G) {
	g.next = nil
	if q.tail != nil {
		q.tail.next = g
	} else {
		q.head = g
	}
	q.tail = g
}

//go:norace
func (q *gq) pop() *G {
	g := q.head
	if g != nil {
		q.head = g.next
		if q.head == nil {
			q.tail = nil
		}
		g.next = nil
	}
	return g
}

// Locker is sync.Locker.
type Locker interface {
	Lock()
	Unlock()
}

// Mutex is the simulated sync.Mutex. Unlock wakes the longest waiter, which
// then competes for the lock again, so barging (legal natively) is explored.
type Mutex struct {
	locked bool
	epoch  uint32
	q      gq
}

//go:norace
func (m *Mutex) fresh(s *Sim) {
	if m.epoch != s.epoch {
		m.epoch = s.epoch
		m.locked = false
		m.q = gq{}
	}
}

// Lock locks m.
//
//go:norace
func (m *Mutex) Lock() {
	s, g := enter(-1, OpLock)
	if s == nil {
		if theSim == nil {
			if m.locked {
				panic("simrt: Mutex.Lock would block outside a simulation")
			}
			m.locked = true
		}
		return
	}
	m.fresh(s)
	m.lockSlow(s, g)
	s.event(g, -1, OpLock, CodeDone)
}

//go:norace
func (m *Mutex) lockSlow(s *Sim, g *G) {
	for m.locked {
		m.q.push(g)
		s.stats.MutexBlocked++
		s.block(g, -1, OpLock)
	}
	m.locked = true
	raceAcquire(unsafe.Pointer(m))
}

// TryLock tries to lock m.
//
//go:norace
func (m *Mutex) TryLock() bool {
	s, g := enter(-1, OpLock)
	if s == nil {
		if theSim == nil && !m.locked {
			m.locked = true
			return true
		}
		return false
	}
	m.fresh(s)
	if m.locked {
		s.event(g, -1, OpLock, CodeBlocked)
		return false
	}
	m.locked = true
	raceAcquire(unsafe.Pointer(m))
	s.event(g, -1, OpLock, CodeDone)
	return true
}

// Unlock unlocks m.
//
//go:norace
func (m *Mutex) Unlock() {
	s, g := enter(-1, OpUnlock)
	if s == nil {
		if theSim == nil {
			if !m.locked {
				panic("sync: unlock of unlocked mutex")
			}
			m.locked = false
		}
		return
	}
	m.fresh(s)
	m.unlockSlow(s)
	s.event(g, -1, OpUnlock, CodeDone)
}

//go:norace
func (m *Mutex) unlockSlow(s *Sim) {
	if !m.locked {
		panic("sync: unlock of unlocked mutex")
	}
	raceRelease(unsafe.Pointer(m))
	m.locked = false
	if w := m.q.pop(); w != nil {
		s.ready(w)
	}
}

// sema is a counting semaphore with a FIFO wait queue.
type sema struct {
	n int
	q gq
}

//go:norace
func (sm *sema) acquire(s *Sim, g *G, op Op) {
	for sm.n == 0 {
		sm.q.push(g)
		s.block(g, -1, op)
	}
	sm.n--
}

//go:norace
func (sm *sema) release(s *Sim) {
	sm.n++
	if w := sm.q.pop(); w != nil {
		s.ready(w)
	}
}

const rwmutexMaxReaders = 1 << 30

// RWMutex is the simulated sync.RWMutex: the algorithm of sync/rwmutex.go
// (writer-preferring) executed under the baton, with the same race
// annotations.
type RWMutex struct {
	w           Mutex
	writerSem   sema
	readerSem   sema
	readerCount int
	readerWait  int
	epoch       uint32
	rSemAddr    byte
	wSemAddr    byte
}

//go:norace
func (rw *RWMutex) fresh(s *Sim) {
	if rw.epoch != s.epoch {
		*rw = RWMutex{epoch: s.epoch}
		rw.w.epoch = s.epoch
	}
}

// RLock locks rw for reading.
//
//go:norace
func (rw *RWMutex) RLock() {
	s, g := enter(-1, OpRLock)
	if s == nil {
		if theSim == nil {
			rw.readerCount++
			if rw.readerCount < 0 {
				panic("simrt: RWMutex.RLock would block outside a simulation")
			}
		}
		return
	}
	rw.fresh(s)
	rw.readerCount++
	if rw.readerCount < 0 {
		// a writer is pending
		rw.readerSem.acquire(s, g, OpRLock)
	}
	raceAcquire(unsafe.Pointer(&rw.rSemAddr))
	s.event(g, -1, OpRLock, CodeDone)
}

// RUnlock undoes a single RLock.
//
//go:norace
func (rw *RWMutex) RUnlock() {
	s, g := enter(-1, OpRUnlock)
	if s == nil {
		if theSim == nil {
			rw.readerCount--
		}
		return
	}
	rw.fresh(s)
	raceReleaseMerge(unsafe.Pointer(&rw.wSemAddr))
	rw.readerCount--
	if r := rw.readerCount; r < 0 {
		if r+1 == 0 || r+1 == -rwmutexMaxReaders {
			panic("sync: RUnlock of unlocked RWMutex")
		}
		rw.readerWait--
		if rw.readerWait == 0 {
			rw.writerSem.release(s)
		}
	}
	s.event(g, -1, OpRUnlock, CodeDone)
}

// Lock locks rw for writing.
//
//go:norace
func (rw *RWMutex) Lock() {
	s, g := enter(-1, OpLock)
	if s == nil {
		if theSim == nil {
			if rw.readerCount != 0 {
				panic("simrt: RWMutex.Lock would block outside a simulation")
			}
			rw.readerCount -= rwmutexMaxReaders
		}
		return
	}
	rw.fresh(s)
	rw.w.lockSlow(s, g)
	rw.readerCount -= rwmutexMaxReaders
	r := rw.readerCount + rwmutexMaxReaders
	if r != 0 {
		rw.readerWait += r
		if rw.readerWait != 0 {
			rw.writerSem.acquire(s, g, OpLock)
		}
	}
	raceAcquire(unsafe.Pointer(&rw.rSemAddr))
	raceAcquire(unsafe.Pointer(&rw.wSemAddr))
	s.event(g, -1, OpLock, CodeDone)
}

// Unlock unlocks rw for writing.
//
//go:norace
func (rw *RWMutex) Unlock() {
	s, g := enter(-1, OpUnlock)
	if s == nil {
		if theSim == nil {
			rw.readerCount += rwmutexMaxReaders
		}
		return
	}
	rw.fresh(s)
	raceRelease(unsafe.Pointer(&rw.rSemAddr))
	rw.readerCount += rwmutexMaxReaders
	r := rw.readerCount
	if r >= rwmutexMaxReaders {
		panic("sync: Unlock of unlocked RWMutex")
	}
	for i := 0; i < r; i++ {
		rw.readerSem.release(s)
	}
	rw.w.unlockSlow(s)
	s.event(g, -1, OpUnlock, CodeDone)
}

// RLocker returns a Locker that uses RLock/RUnlock.
func (rw *RWMutex) RLocker() Locker { return (*rlocker)(rw) }

type rlocker RWMutex

func (r *rlocker) Lock()   { (*RWMutex)(r).RLock() }
func (r *rlocker) Unlock() { (*RWMutex)(r).RUnlock() }

// WaitGroup is the simulated sync.WaitGroup.
type WaitGroup struct {
	n     int
	epoch uint32
	q     gq
}

//go:norace
func (wg *WaitGroup) fresh(s *Sim) {
	if wg.epoch != s.epoch {
		*wg = WaitGroup{epoch: s.epoch}
	}
}

// Add adds delta to the counter.
//
//go:norace
func (wg *WaitGroup) Add(delta int) {
	s, g := enter(-1, OpWGAdd)
	if s == nil {
		if theSim == nil {
			wg.n += delta
		}
		return
	}
	wg.fresh(s)
	if delta < 0 {
		raceReleaseMerge(unsafe.Pointer(wg))
	}
	wg.n += delta
	if wg.n < 0 {
		panic("sync: negative WaitGroup counter")
	}
	if wg.n == 0 {
		for w := wg.q.pop(); w != nil; w = wg.q.pop() {
			s.ready(w)
		}
	}
	s.event(g, -1, OpWGAdd, CodeDone)
}

// Done decrements the counter.
//
//go:norace
func (wg *WaitGroup) Done() { wg.Add(-1) }

// Wait blocks until the counter is zero.
//
//go:norace
func (wg *WaitGroup) Wait() {
	s, g := enter(-1, OpWGWait)
	if s == nil {
		if theSim == nil && wg.n != 0 {
			panic("simrt: WaitGroup.Wait would block outside a simulation")
		}
		return
	}
	wg.fresh(s)
	if wg.n != 0 {
		wg.q.push(g)
		s.block(g, -1, OpWGWait)
	}
	raceAcquire(unsafe.Pointer(wg))
	s.event(g, -1, OpWGWait, CodeDone)
}

// Once is the simulated sync.Once.
type Once struct {
	state uint8 // 0 not run, 1 running, 2 done
	q     gq
}

// Do calls f if and only if Do has not been called before for this Once.
//
//go:norace
func (o *Once) Do(f func()) {
	s, g := enter(-1, OpOnce)
	if s == nil {
		if theSim == nil && o.state == 0 {
			o.state = 1
			defer o.finishDo()
			f()
		}
		return
	}
	switch o.state {
	case 2:
		raceAcquire(unsafe.Pointer(o))
		s.event(g, -1, OpOnce, CodeDone)
		return
	case 1:
		o.q.push(g)
		s.block(g, -1, OpOnce)
		raceAcquire(unsafe.Pointer(o))
		return
	}
	o.state = 1
	s.event(g, -1, OpOnce, CodeDone)
	defer o.finishDo()
	f()
}

//go:norace
func (o *Once) finishDo() {
	s := theSim
	if s != nil && s.aborted {
		return
	}
	raceReleaseMerge(unsafe.Pointer(o))
	o.state = 2
	if s != nil {
		for w := o.q.pop(); w != nil; w = o.q.pop() {
			s.ready(w)
		}
	}
}

// Cond is the simulated sync.Cond.
type Cond struct {
	L Locker
	q gq
}

// NewCond returns a new Cond with Locker l.
func NewCond(l Locker) *Cond { return &Cond{L: l} }

// Wait atomically unlocks c.L and suspends the calling goroutine.
//
//go:norace
func (c *Cond) Wait() {
	s, g := enter(-1, OpCond)
	if s == nil {
		outside("Cond.Wait")
		return
	}
	c.q.push(g)
	c.L.Unlock()
	if g.state == gRunnable && !c.queued(g) {
		// signalled between the unlock's scheduling point and now
	} else {
		s.block(g, -1, OpCond)
	}
	raceAcquire(unsafe.Pointer(c))
	c.L.Lock()
}

//go:norace
func (c *Cond) queued(g *G) bool {
	for h := c.q.head; h != nil; h = h.next {
		if h == g {
			return true
		}
	}
	return false
}

// Signal wakes one goroutine waiting on c.
//
//go:norace
func (c *Cond) Signal() {
	s, g := enter(-1, OpCond)
	if s == nil {
		return
	}
	raceReleaseMerge(unsafe.Pointer(c))
	if w := c.q.pop(); w != nil {
		s.ready(w)
	}
	s.event(g, -1, OpCond, CodeDone)
}

// Broadcast wakes all goroutines waiting on c.
//
//go:norace
func (c *Cond) Broadcast() {
	s, g := enter(-1, OpCond)
	if s == nil {
		return
	}
	raceReleaseMerge(unsafe.Pointer(c))
	for w := c.q.pop(); w != nil; w = c.q.pop() {
		s.ready(w)
	}
	s.event(g, -1, OpCond, CodeDone)
}

// Map is the simulated sync.Map: an association list (maps cannot be used in
// uninstrumented code), every method one atomic step.
type Map struct {
	keys []interface{}
	vals []interface{}
	addr byte
}

//go:norace
func (m *Map) find(k interface{}) int {
	for i := range m.keys {
		if m.keys[i] == k {
			return i
		}
	}
	return -1
}

//go:norace
func (m *Map) step(write bool) {
	if s, g := enter(-1, OpMap); s != nil {
		s.event(g, -1, OpMap, CodeDone)
	}
	if write {
		raceReleaseMerge(unsafe.Pointer(&m.addr))
	}
	raceAcquire(unsafe.Pointer(&m.addr))
}

//go:norace
func (m *Map) add(k, v interface{}) {
	n := len(m.keys)
	nk := make([]interface{}, n+1)
	nv := make([]interface{}, n+1)
	for i := 0; i < n; i++ {
		nk[i], nv[i] = m.keys[i], m.vals[i]
	}
	nk[n], nv[n] = k, v
	m.keys, m.vals = nk, nv
}

// Load returns the value stored for key.
//
//go:norace
func (m *Map) Load(key interface{}) (interface{}, bool) {
	m.step(false)
	if i := m.find(key); i >= 0 {
		return m.vals[i], true
	}
	return nil, false
}

// Store sets the value for key.
//
//go:norace
func (m *Map) Store(key, value interface{}) {
	m.step(true)
	if i := m.find(key); i >= 0 {
		m.vals[i] = value
		return
	}
	m.add(key, value)
}

// LoadOrStore returns the existing value for key if present, otherwise stores value.
//
//go:norace
func (m *Map) LoadOrStore(key, value interface{}) (interface{}, bool) {
	m.step(true)
	if i := m.find(key); i >= 0 {
		return m.vals[i], true
	}
	m.add(key, value)
	return value, false
}

// LoadAndDelete deletes the value for key, returning the previous value if any.
//
//go:norace
func (m *Map) LoadAndDelete(key interface{}) (interface{}, bool) {
	m.step(true)
	i := m.find(key)
	if i < 0 {
		return nil, false
	}
	v := m.vals[i]
	n := len(m.keys)
	nk := make([]interface{}, 0, n)
	nv := make([]interface{}, 0, n)
	for j := 0; j < n; j++ {
		if j != i {
			nk = nk[:len(nk)+1]
			nv = nv[:len(nv)+1]
			nk[len(nk)-1], nv[len(nv)-1] = m.keys[j], m.vals[j]
		}
	}
	m.keys, m.vals = nk, nv
	return v, true
}

// Delete deletes the value for key.
//
//go:norace
func (m *Map) Delete(key interface{}) { m.LoadAndDelete(key) }

// Range calls f for each key and value in insertion order.
func (m *Map) Range(f func(key, value interface{}) bool) {
	m.step(false)
	keys, vals := m.snapshot()
	for i := range keys {
		if !f(keys[i], vals[i]) {
			return
		}
	}
}

//go:norace
func (m *Map) snapshot() ([]interface{}, []interface{}) { return m.keys, m.vals }

// Pool is the simulated sync.Pool: the storage seam of mat's workspace pools.
type Pool struct {
	New   func() interface{}
	items [poolCap]interface{}
	ids   [poolCap]uintptr
	n     int
	epoch uint32
}

// PoolIdentity, when set, maps a pooled object to the address of the memory
// it lends out (for mat's workspaces: the backing array), so that the same
// scratch memory put back twice is recognised even when it is wrapped in two
// different header objects. 0 means unknown.
var PoolIdentity func(x interface{}) uintptr

const poolCap = 32

var poolRaceHash [128]uint64

// PoolPoison, when set, is called with every object passing through a
// poisoning pool; it overwrites the object's payload with garbage.
var PoolPoison func(x interface{}, pattern int)

//go:norace
func poolRaceAddr(x interface{}) unsafe.Pointer {
	ptr := uintptr((*[2]unsafe.Pointer)(unsafe.Pointer(&x))[1])
	h := uint32((uint64(uint32(ptr)) * 0x85ebca6b) >> 16)
	return unsafe.Pointer(&poolRaceHash[h%uint32(len(poolRaceHash))])
}

//go:norace
func (p *Pool) fresh(s *Sim) {
	if p.epoch != s.epoch {
		p.epoch = s.epoch
		for i := range p.items {
			p.items[i] = nil
			p.ids[i] = 0
		}
		p.n = 0
	}
}

// Put adds x to the pool.
func (p *Pool) Put(x interface{}) {
	if x == nil {
		return
	}
	s, g, pattern := p.putBegin()
	if s == nil {
		return
	}
	if pattern != 0 && PoolPoison != nil {
		// "another goroutine got it immediately and scribbled on it": the
		// garbage is written by the goroutine that gives the object up,
		// before the release edge, so the writes are ordered like its own.
		PoolPoison(x, pattern)
	}
	var id uintptr
	if PoolIdentity != nil {
		id = PoolIdentity(x) // reads the object: before the release edge
	}
	p.putEnd(s, g, x, id)
}

//go:norace
func (p *Pool) putBegin() (*Sim, *G, int) {
	s, g := enter(-1, OpPoolPut)
	if s == nil {
		return nil, nil, 0
	}
	p.fresh(s)
	if s.cfg.PoolPoison {
		s.stats.PoolPoisoned++
		return s, g, 1 + s.tape.Choose(KPool, 3)
	}
	return s, g, 0
}

//go:norace
func (p *Pool) putEnd(s *Sim, g *G, x interface{}, id uintptr) {
	raceReleaseMerge(poolRaceAddr(x))
	for i := 0; i < p.n; i++ {
		if p.items[i] == x || (id != 0 && p.ids[i] == id) {
			s.stats.PoolDoublePut++
		}
	}
	if s.cfg.PoolMode == PoolTape && p.n < poolCap {
		p.items[p.n] = x
		p.ids[p.n] = id
		p.n++
	}
	s.event(g, -1, OpPoolPut, CodeDone)
}

// Get selects an arbitrary item from the pool, removes it and returns it, or
// calls New.
func (p *Pool) Get() interface{} {
	x, poison, pattern := p.get()
	if x == nil {
		if p.New != nil {
			return p.New()
		}
		return nil
	}
	if poison && PoolPoison != nil {
		PoolPoison(x, pattern)
	}
	return x
}

//go:norace
func (p *Pool) get() (x interface{}, poison bool, pattern int) {
	s, g := enter(-1, OpPoolGet)
	if s == nil {
		return nil, false, 0
	}
	p.fresh(s)
	if s.cfg.PoolMode == PoolTape && p.n > 0 {
		if s.tape.OneIn(KPoolGC, 16) {
			for i := 0; i < p.n; i++ {
				p.items[i] = nil
			}
			p.n = 0
			s.stats.PoolPurge++
		}
	}
	if s.cfg.PoolMode != PoolTape || p.n == 0 {
		s.stats.PoolMiss++
		s.event(g, -1, OpPoolGet, CodeBlocked)
		return nil, false, 0
	}
	k := s.tape.Choose(KPool, p.n+1)
	if k == 0 {
		s.stats.PoolMiss++
		s.event(g, -1, OpPoolGet, CodeBlocked)
		return nil, false, 0
	}
	x = p.items[k-1]
	p.items[k-1] = p.items[p.n-1]
	p.ids[k-1] = p.ids[p.n-1]
	p.items[p.n-1] = nil
	p.ids[p.n-1] = 0
	p.n--
	raceAcquire(poolRaceAddr(x))
	s.stats.PoolHit++
	s.event(g, -1, OpPoolGet, CodeDone)
	if s.cfg.PoolPoison {
		s.stats.PoolDirtyHit++
		return x, true, 1 + s.tape.Choose(KPool, 3)
	}
	return x, false, 0
}
