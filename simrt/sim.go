package simrt

import (
	"fmt"
	"runtime"
	"runtime/debug"
	"sync"
	"unsafe"
)

// Policy is a scheduling policy; one is drawn per run by the harness.
type Policy uint8

const (
	PolicyFIFO   Policy = iota // round-robin: the goroutine that has waited longest runs; no tape draws
	PolicyRandom               // uniform random walk over runnable goroutines
	PolicySticky               // keep running the same goroutine with probability 1-1/StickyN
	PolicyPCT                  // random priorities with PCTDepth priority change points
	NPolicies
)

func (p Policy) String() string {
	switch p {
	case PolicyFIFO:
		return "fifo"
	case PolicyRandom:
		return "random"
	case PolicySticky:
		return "sticky"
	case PolicyPCT:
		return "pct"
	}
	return "?"
}

// PoolMode decides what sync.Pool.Get may return.
type PoolMode uint8

const (
	PoolMiss PoolMode = iota // every Get calls New: fresh workspaces (the reference behaviour)
	PoolTape                 // the tape chooses miss, a hit on any stored object, or a purge
)

// Config is the per-run configuration of a simulation.
type Config struct {
	GOMAXPROCS int
	NumCPU     int // what runtime.NumCPU reports (0 = the same as GOMAXPROCS)
	Policy     Policy
	StickyN    int // PolicySticky: switch away with probability 1/StickyN (default 8)
	PCTDepth   int // PolicyPCT: number of priority change points
	PCTSteps   int // PolicyPCT: change points are drawn in [0, PCTSteps)
	MaxSteps   int // livelock budget (default 2,000,000)
	PoolMode   PoolMode
	PoolPoison bool // overwrite pooled objects with garbage on Put and on a hit
	Trace      bool // keep the full event trace (replay / self-test)
}

// Verdict classifies how a simulation ended.
type Verdict uint8

const (
	VOK        Verdict = iota // scenario returned and every goroutine exited
	VDeadlock                 // scenario not finished, nothing runnable, no timer pending
	VLeak                     // scenario returned but goroutines remain blocked forever
	VStepLimit                // step budget exhausted (livelock / runaway)
	VPanic                    // a simulated goroutine panicked (a process crash natively)
	VFail                     // the harness called Fail
)

func (v Verdict) String() string {
	return [...]string{"ok", "deadlock", "leak", "steplimit", "panic", "fail"}[v]
}

// Event is one entry of the event trace.
type Event struct {
	Step int
	G    int
	Site int
	Op   Op
	Code uint8 // outcome: arm index, or blocked/woken flags
}

// Op is the kind of a simulated operation.
type Op uint8

const (
	OpGo Op = iota
	OpSend
	OpRecv
	OpClose
	OpSelect
	OpLock
	OpUnlock
	OpRLock
	OpRUnlock
	OpWGAdd
	OpWGWait
	OpOnce
	OpPoolGet
	OpPoolPut
	OpSleep
	OpYield
	OpMap
	OpCond
	OpExit
	OpRange
	OpAtomic
	nOps
)

var opNames = [nOps]string{"go", "send", "recv", "close", "select", "lock", "unlock", "rlock", "runlock", "wg.add", "wg.wait", "once", "pool.get", "pool.put", "sleep", "yield", "map", "cond", "exit", "range", "atomic"}

func (o Op) String() string {
	if int(o) < len(opNames) {
		return opNames[o]
	}
	return "?"
}

// Outcome codes recorded with events (besides select arm indices).
const (
	CodeDone    uint8 = 200 // completed without blocking
	CodeBlocked uint8 = 201 // the goroutine parked
	CodeWoken   uint8 = 202 // resumed after parking
	CodeClosed  uint8 = 203 // completed because the channel is closed
)

// BlockedG describes a goroutine that can never run again.
type BlockedG struct {
	G    int
	Site int
	Op   Op
}

// Outcome is the result of one simulation.
type Outcome struct {
	Verdict    Verdict
	Msg        string
	PanicVal   interface{}
	PanicStack string
	Steps      int
	SimTime    int64 // simulated nanoseconds elapsed
	Goroutines int   // goroutines created
	MaxLive    int   // most goroutines alive at once
	Hash       uint64
	Blocked    []BlockedG
	Trace      []Event
	Races      int // race reports attributed to this run (race build)
	Stats      Stats
}

// Stats counts what actually happened in a run (fired, not configured).
type Stats struct {
	Switches      int // context switches
	MultiRunnable int // scheduling points with >= 2 runnable goroutines
	SelectMulti   int // selects with >= 2 ready arms
	SelectBlocked int
	ChanBlocked   int
	PoolHit       int
	PoolMiss      int
	PoolPurge     int
	PoolPoisoned  int
	PoolDoublePut int
	PoolDirtyHit  int
	TimerFires    int
	ClockJumps    int
	MutexBlocked  int
	PCTChanges    int
}

const (
	gRunnable uint8 = iota
	gBlocked
	gDone
)

// G is a simulated goroutine.
type G struct {
	id      int
	sim     *Sim
	gate    chan struct{}
	state   uint8
	prio    int
	lastRun int
	// block bookkeeping
	blockSite int
	blockOp   Op
	// wake-up payload
	wakeIdx    int
	wakeOK     bool
	wakeClosed bool
	ws         []*waiter // waiters of the select / channel op this G is parked in
	next       *G        // intrusive list for sync wait queues
	wakeAt     int64
	abortExit  bool
}

// Sim is one running simulation.
type Sim struct {
	tape    *Tape
	cfg     Config
	gs      []*G // live goroutines in creation order
	ngs     int
	nextID  int
	maxLive int
	mainG   *G
	cur     *G
	scratch []*G
	steps   int
	now     int64
	timers  []*timer
	tseq    uint64
	aborted bool
	verdict Verdict
	msg     string
	pval    interface{}
	pstack  string
	blocked []BlockedG
	doneCh  chan struct{}
	ackCh   chan struct{}
	wg      sync.WaitGroup
	hash    uint64
	trace   []Event
	ntrace  int
	end     byte // race address: join edge G exit -> Run
	abortTk byte // race address: chain between sequentially aborted goroutines
	pct     []int
	pctNext int
	epoch   uint32
	nextCh  uint32
	stats   Stats
	raceAt  int
}

var theSim *Sim
var epochCounter uint32

// SiteHits counts (site, outcome class) pairs over the life of the process;
// class 0 = completed at once, 1 = blocked, 2 = closed/other.
var SiteHits []uint32

// SetSites sizes the site-hit table.
func SetSites(n int) { SiteHits = make([]uint32, 3*(n+1)) }

//go:norace
func hitSite(site int, class int) {
	i := 3*site + class
	if site >= 0 && i < len(SiteHits) {
		SiteHits[i]++
	}
}

// Run executes main as the first goroutine of a fresh simulation and returns
// when the simulation has reached a verdict and every goroutine it created
// has exited.
func Run(tape *Tape, cfg Config, main func()) *Outcome {
	if theSim != nil {
		panic("simrt: nested Run")
	}
	if cfg.MaxSteps == 0 {
		cfg.MaxSteps = 2000000
	}
	if cfg.StickyN < 2 {
		cfg.StickyN = 8
	}
	if cfg.GOMAXPROCS == 0 {
		cfg.GOMAXPROCS = 1
	}
	epochCounter++
	s := &Sim{tape: tape, cfg: cfg, doneCh: make(chan struct{}, 1), ackCh: make(chan struct{}), epoch: epochCounter}
	s.gs = make([]*G, 0, 64)
	s.scratch = make([]*G, 64)
	s.timers = make([]*timer, 0, 16)
	if cfg.Trace {
		n := cfg.MaxSteps*2 + 1024
		if n > 1<<18 {
			n = 1 << 18
		}
		s.trace = make([]Event, n)
	}
	if cfg.Policy == PolicyPCT {
		n := cfg.PCTSteps
		if n < 1 {
			n = 1000
		}
		s.pct = make([]int, cfg.PCTDepth)
		for i := range s.pct {
			s.pct[i] = tape.Choose(KPrio, n)
		}
		// sort ascending (tiny)
		for i := 1; i < len(s.pct); i++ {
			for j := i; j > 0 && s.pct[j] < s.pct[j-1]; j-- {
				s.pct[j], s.pct[j-1] = s.pct[j-1], s.pct[j]
			}
		}
	}
	s.raceAt = RaceErrors()
	races0 := s.raceAt
	runSim(s, main)
	out := &Outcome{
		Verdict: s.verdict, Msg: s.msg, PanicVal: s.pval, PanicStack: s.pstack,
		Steps: s.steps, SimTime: s.now, Goroutines: s.nextID, MaxLive: s.maxLive,
		Hash: s.hash, Blocked: s.blocked, Stats: s.stats, Races: s.raceAt - races0,
	}
	if cfg.Trace {
		out.Trace = append([]Event(nil), s.trace[:s.ntrace]...)
	}
	return out
}

//go:norace
func runSim(s *Sim, main func()) {
	theSim = s
	g := s.newG()
	s.mainG = g
	s.cur = g
	s.spawn(g, main)
	raceDisable()
	g.gate <- struct{}{}
	<-s.doneCh
	// A verdict has been reached. Release, one at a time, every goroutine
	// that has not exited; each runs its deferred calls in abort mode.
	for i := 0; i < s.ngs; i++ {
		h := s.gs[i]
		if h.state != gDone {
			h.gate <- struct{}{}
			<-s.ackCh
		}
	}
	s.wg.Wait()
	raceEnable()
	raceAcquire(unsafe.Pointer(&s.end))
	theSim = nil
}

//go:norace
func (s *Sim) newG() *G {
	g := &G{id: s.nextID, sim: s, gate: make(chan struct{}, 1), lastRun: s.steps}
	s.nextID++
	if s.cfg.Policy == PolicyPCT {
		g.prio = s.cfg.PCTDepth + 1 + s.tape.Choose(KPrio, 1<<16)
	}
	if s.ngs == cap(s.gs) {
		ng := make([]*G, s.ngs, 2*cap(s.gs))
		for i := 0; i < s.ngs; i++ {
			ng[i] = s.gs[i]
		}
		s.gs = ng
		s.scratch = make([]*G, 2*cap(s.gs))
	}
	s.gs = s.gs[:s.ngs+1]
	s.gs[s.ngs] = g
	s.ngs++
	if s.ngs > s.maxLive {
		s.maxLive = s.ngs
	}
	return g
}

// spawn starts the real goroutine that carries g. The real go statement is
// executed with race synchronisation enabled so that the race detector sees
// the fork edge of the simulated go statement.
//
//go:norace
func (s *Sim) spawn(g *G, f func()) {
	s.wg.Add(1)
	go gmain(s, g, f)
}

//go:norace
func gmain(s *Sim, g *G, f func()) {
	defer gexit(s, g)
	raceDisable()
	<-g.gate
	raceEnable()
	if s.aborted {
		g.abortExit = true
		raceAcquire(unsafe.Pointer(&s.abortTk))
		return
	}
	defer gfinish(g)
	f()
}

// gexit is the outermost deferred call of every simulated goroutine.
//
//go:norace
func gexit(s *Sim, g *G) {
	if g.abortExit {
		// Swallow a panic raised by a deferred call running in abort mode.
		recover()
		raceReleaseMerge(unsafe.Pointer(&s.abortTk))
		raceReleaseMerge(unsafe.Pointer(&s.end))
		raceDisable()
		s.ackCh <- struct{}{}
		raceEnable()
	}
	s.wg.Done()
}

// gfinish runs when the goroutine's function returns, panics or calls Goexit.
//
//go:norace
func gfinish(g *G) {
	s := g.sim
	r := recover()
	if g.abortExit {
		return
	}
	if s.aborted {
		// The verdict was reached by this goroutine itself (step limit,
		// deadlock detected while it still had deferred calls to run, ...).
		g.state = gDone
		raceReleaseMerge(unsafe.Pointer(&s.end))
		return
	}
	if r != nil {
		g.state = gDone
		raceReleaseMerge(unsafe.Pointer(&s.end))
		s.pval = r
		s.pstack = string(debug.Stack())
		s.finish(VPanic, fmt.Sprintf("goroutine G%d panicked: %v", g.id, r))
		return
	}
	s.event(g, -1, OpExit, CodeDone)
	raceReleaseMerge(unsafe.Pointer(&s.end))
	g.state = gDone
	s.removeG(g)
	s.dispatch()
}

//go:norace
func (s *Sim) removeG(g *G) {
	j := 0
	for i := 0; i < s.ngs; i++ {
		if s.gs[i] != g {
			s.gs[j] = s.gs[i]
			j++
		}
	}
	for i := j; i < s.ngs; i++ {
		s.gs[i] = nil
	}
	s.ngs = j
	s.gs = s.gs[:j]
}

// finish records the first verdict and wakes Run. The caller must not touch
// simulation state afterwards.
//
//go:norace
func (s *Sim) finish(v Verdict, msg string) {
	if s.aborted {
		return
	}
	s.verdict = v
	s.msg = msg
	s.raceAt = RaceErrors()
	if v == VDeadlock || v == VLeak || v == VStepLimit {
		for i := 0; i < s.ngs; i++ {
			h := s.gs[i]
			if h.state == gBlocked {
				s.addBlocked(BlockedG{G: h.id, Site: h.blockSite, Op: h.blockOp})
			}
		}
	}
	s.aborted = true
	raceDisable()
	s.doneCh <- struct{}{}
	raceEnable()
}

//go:norace
func (s *Sim) addBlocked(b BlockedG) {
	nb := make([]BlockedG, len(s.blocked)+1)
	for i := range s.blocked {
		nb[i] = s.blocked[i]
	}
	nb[len(s.blocked)] = b
	s.blocked = nb
}

// abortPark parks the calling goroutine until Run releases it in abort mode
// and then terminates it.
//
//go:norace
func (s *Sim) abortPark(g *G) {
	raceDisable()
	<-g.gate
	raceEnable()
	s.abortNow(g)
}

//go:norace
func (s *Sim) abortNow(g *G) {
	g.abortExit = true
	raceAcquire(unsafe.Pointer(&s.abortTk))
	runtime.Goexit()
}

// event records one operation in the running hash, the site table and, when
// tracing, the event log.
//
//go:norace
func (s *Sim) event(g *G, site int, op Op, code uint8) {
	s.hash = mix64(s.hash ^ (uint64(g.id)<<40 | uint64(uint32(site+1))<<16 | uint64(op)<<8 | uint64(code)))
	if s.trace != nil && s.ntrace < len(s.trace) {
		s.trace[s.ntrace] = Event{Step: s.steps, G: g.id, Site: site, Op: op, Code: code}
		s.ntrace++
	}
}

// enter is the scheduling point at the start of every simulated operation.
// It returns the current goroutine, or nil if the operation must be a no-op
// (abort mode).
//
//go:norace
func enter(site int, op Op) (*Sim, *G) {
	s := theSim
	if s == nil {
		return nil, nil
	}
	if s.aborted {
		// Only deferred calls of goroutines being released in abort mode
		// get here: every operation is a no-op.
		return nil, nil
	}
	g := s.cur
	s.steps++
	if s.steps > s.cfg.MaxSteps {
		s.finish(VStepLimit, fmt.Sprintf("step budget of %d exhausted", s.cfg.MaxSteps))
		s.abortPark(g)
	}
	if s.pctNext < len(s.pct) && s.steps >= s.pct[s.pctNext] {
		g.prio = len(s.pct) - s.pctNext // below every initial priority
		s.pctNext++
		s.stats.PCTChanges++
	}
	next := s.pick()
	if next != g {
		s.switchTo(next)
	} else {
		g.lastRun = s.steps
	}
	return s, g
}

// pick chooses among the runnable goroutines. The current goroutine, if
// runnable, is candidate 0, so the all-zero tape never preempts.
//
//go:norace
func (s *Sim) pick() *G {
	n := 0
	cur := s.cur
	if cur != nil && cur.state == gRunnable {
		s.scratch[0] = cur
		n = 1
	}
	for i := 0; i < s.ngs; i++ {
		h := s.gs[i]
		if h.state == gRunnable && h != cur {
			s.scratch[n] = h
			n++
		}
	}
	if n == 0 {
		return nil
	}
	if n == 1 {
		return s.scratch[0]
	}
	s.stats.MultiRunnable++
	switch s.cfg.Policy {
	case PolicyFIFO:
		best := s.scratch[0]
		for i := 1; i < n; i++ {
			h := s.scratch[i]
			if h.lastRun < best.lastRun || (h.lastRun == best.lastRun && h.id < best.id) {
				best = h
			}
		}
		return best
	case PolicyRandom:
		return s.scratch[s.tape.Choose(KSched, n)]
	case PolicySticky:
		if s.scratch[0] == cur {
			if s.tape.Choose(KSched, s.cfg.StickyN) != s.cfg.StickyN-1 {
				return cur
			}
			return s.scratch[1+s.tape.Choose(KSched, n-1)]
		}
		return s.scratch[s.tape.Choose(KSched, n)]
	case PolicyPCT:
		best := s.scratch[0]
		for i := 1; i < n; i++ {
			h := s.scratch[i]
			if h.prio > best.prio || (h.prio == best.prio && h.id < best.id) {
				best = h
			}
		}
		return best
	}
	return s.scratch[0]
}

// switchTo hands the baton to next and parks the current goroutine unless it
// has exited.
//
//go:norace
func (s *Sim) switchTo(next *G) {
	prev := s.cur
	s.cur = next
	next.lastRun = s.steps
	if next == prev {
		return
	}
	s.stats.Switches++
	raceDisable()
	next.gate <- struct{}{}
	if prev.state == gDone {
		raceEnable()
		return
	}
	<-prev.gate
	raceEnable()
	if s.aborted {
		s.abortNow(prev)
	}
}

// dispatch is called by a goroutine that cannot continue (blocked or
// exited): it finds the next goroutine to run, advancing the clock if
// necessary, or reaches a verdict.
//
//go:norace
func (s *Sim) dispatch() {
	g := s.cur
	for {
		next := s.pick()
		if next != nil {
			s.switchTo(next)
			return
		}
		if s.fireNextTimers() {
			continue
		}
		// Nothing runnable and no timer pending.
		nblocked := 0
		for i := 0; i < s.ngs; i++ {
			if s.gs[i].state == gBlocked {
				nblocked++
			}
		}
		switch {
		case s.mainG.state != gDone:
			s.finish(VDeadlock, fmt.Sprintf("deadlock: scenario not finished, %d goroutine(s) blocked, nothing runnable, no timer pending", nblocked))
		case nblocked > 0:
			s.finish(VLeak, fmt.Sprintf("goroutine leak: scenario returned, %d goroutine(s) blocked forever", nblocked))
		default:
			s.finish(VOK, "")
		}
		if g.state != gDone {
			s.abortPark(g)
		}
		return
	}
}

// block parks the current goroutine until another goroutine or a timer makes
// it runnable again.
//
//go:norace
func (s *Sim) block(g *G, site int, op Op) {
	g.state = gBlocked
	g.blockSite = site
	g.blockOp = op
	s.event(g, site, op, CodeBlocked)
	hitSite(site, 1)
	s.dispatch()
	// resumed
	s.event(g, site, op, CodeWoken)
}

//go:norace
func (s *Sim) ready(g *G) {
	g.state = gRunnable
}

// Go starts f as a new simulated goroutine.
//
//go:norace
func Go(site int, f func()) {
	s, g := enter(site, OpGo)
	if s == nil {
		if theSim == nil {
			panic("simrt: go statement outside a simulation")
		}
		return
	}
	h := s.newG()
	s.spawn(h, f)
	s.event(g, site, OpGo, CodeDone)
	hitSite(site, 0)
}

// Yield is an explicit scheduling point for harness callbacks.
//
//go:norace
func Yield() {
	s, g := enter(-1, OpYield)
	if s != nil {
		s.event(g, -1, OpYield, CodeDone)
	}
}

// Choose draws from the current simulation's tape (0 outside a simulation).
//
//go:norace
func Choose(k Kind, n int) int {
	s := theSim
	if s == nil || s.aborted {
		return 0
	}
	return s.tape.Choose(k, n)
}

// Fail ends the simulation with a harness-detected violation. It does not
// return when called from a simulated goroutine.
//
//go:norace
func Fail(msg string) {
	s := theSim
	if s == nil || s.aborted {
		return
	}
	g := s.cur
	s.finish(VFail, msg)
	s.abortPark(g)
}

// InSim reports whether a simulation is running.
//
//go:norace
func InSim() bool { return theSim != nil && !theSim.aborted }

// GID returns the id of the running simulated goroutine (-1 outside).
//
//go:norace
func GID() int {
	s := theSim
	if s == nil {
		return -1
	}
	return s.cur.id
}

// Steps returns the number of scheduling points so far in the current run.
//
//go:norace
func Steps() int {
	s := theSim
	if s == nil {
		return 0
	}
	return s.steps
}

// NumGoroutine returns the number of live simulated goroutines.
//
//go:norace
func NumGoroutine() int {
	s := theSim
	if s == nil {
		return 0
	}
	return s.ngs
}

// GOMAXPROCS returns the simulated value; setting it is ignored.
//
//go:norace
func GOMAXPROCS(n int) int {
	s := theSim
	if s == nil {
		return 1
	}
	return s.cfg.GOMAXPROCS
}

// NumCPU returns the simulated number of CPUs: Config.NumCPU, or the
// simulated GOMAXPROCS when that is zero. The two are independent on a real
// machine (GOMAXPROCS may be set below or above the CPU count).
//
//go:norace
func NumCPU() int {
	s := theSim
	if s == nil {
		return 1
	}
	if s.cfg.NumCPU > 0 {
		return s.cfg.NumCPU
	}
	return s.cfg.GOMAXPROCS
}
