package simrt

import "unsafe"

// plainError mirrors the runtime's error type for channel misuse panics.
type plainError string

func (e plainError) Error() string { return string(e) }
func (e plainError) RuntimeError() {}

// waiter is one parked channel operation (a goroutine parked in a select has
// one waiter per arm).
type waiter struct {
	g          *G
	c          *chanCore
	ptr        unsafe.Pointer // send: the value to send; recv: where to store it
	send       bool
	idx        int
	next, prev *waiter
	onq        bool
	pre, post  byte // private race addresses for the pairwise hand-off
}

type wq struct{ head, tail *waiter }

//go:norace
func (q *wq) push(w *waiter) {
	w.onq = true
	w.next = nil
	w.prev = q.tail
	if q.tail != nil {
		q.tail.next = w
	} else {
		q.head = w
	}
	q.tail = w
}

//go:norace
func (q *wq) remove(w *waiter) {
	if !w.onq {
		return
	}
	if w.prev != nil {
		w.prev.next = w.next
	} else {
		q.head = w.next
	}
	if w.next != nil {
		w.next.prev = w.prev
	} else {
		q.tail = w.prev
	}
	w.next, w.prev, w.onq = nil, nil, false
}

//go:norace
func (q *wq) pop() *waiter {
	w := q.head
	if w != nil {
		q.remove(w)
	}
	return w
}

// elemOps moves values of the channel's element type; implemented by the
// generic Chan so that the non-generic core never needs to know T.
type elemOps interface {
	bufToPtr(i int, p unsafe.Pointer) // *p = buf[i]; buf[i] = zero
	ptrToBuf(p unsafe.Pointer, i int) // buf[i] = *p
	ptrToPtr(dst, src unsafe.Pointer) // *dst = *src
	zeroPtr(p unsafe.Pointer)         // *p = zero
}

// chanCore holds the state of a channel. It is only ever touched by the
// goroutine holding the baton.
type chanCore struct {
	ops     elemOps
	id      uint32
	cap     int
	n       int // elements buffered
	head    int // index of the oldest element (the runtime's recvx)
	closed  bool
	recvq   wq
	sendq   wq
	word    byte // race address read by send, written by close
	cl      byte // race address released by close, acquired by receive-from-closed
	slots   []byte
	slotPre []unsafe.Pointer // clock of a parked goroutine whose value travels with the slot
}

// Chan is the simulated chan T. The zero *Chan[T] (nil) behaves like a nil channel.
type Chan[T any] struct {
	core chanCore
	buf  []T
}

// MakeChan is make(chan T, n).
//
//go:norace
func MakeChan[T any](n int) *Chan[T] {
	if n < 0 {
		panic(plainError("makechan: size out of range"))
	}
	c := &Chan[T]{}
	c.core.ops = c
	c.core.cap = n
	if n > 0 {
		c.buf = make([]T, n)
		c.core.slots = make([]byte, n)
		c.core.slotPre = make([]unsafe.Pointer, n)
	}
	if s := theSim; s != nil {
		s.nextCh++
		c.core.id = s.nextCh
	}
	return c
}

//go:norace
func (c *Chan[T]) bufToPtr(i int, p unsafe.Pointer) {
	var z T
	*(*T)(p) = c.buf[i]
	c.buf[i] = z
}

//go:norace
func (c *Chan[T]) ptrToBuf(p unsafe.Pointer, i int) { c.buf[i] = *(*T)(p) }

//go:norace
func (c *Chan[T]) ptrToPtr(dst, src unsafe.Pointer) { *(*T)(dst) = *(*T)(src) }

//go:norace
func (c *Chan[T]) zeroPtr(p unsafe.Pointer) {
	var z T
	*(*T)(p) = z
}

//go:norace
func (c *Chan[T]) corePtr() *chanCore {
	if c == nil {
		return nil
	}
	return &c.core
}

// Send is c <- v.
//
//go:norace
func (c *Chan[T]) Send(site int, v T) {
	chanSend(c.corePtr(), site, unsafe.Pointer(&v))
}

// Recv is <-c.
//
//go:norace
func (c *Chan[T]) Recv(site int) T {
	var v T
	chanRecv(c.corePtr(), site, OpRecv, unsafe.Pointer(&v))
	return v
}

// Recv2 is v, ok := <-c.
//
//go:norace
func (c *Chan[T]) Recv2(site int) (T, bool) {
	var v T
	ok := chanRecv(c.corePtr(), site, OpRecv, unsafe.Pointer(&v))
	return v, ok
}

// Close is close(c).
//
//go:norace
func (c *Chan[T]) Close(site int) { chanClose(c.corePtr(), site) }

// Len is len(c).
//
//go:norace
func (c *Chan[T]) Len() int {
	if c == nil {
		return 0
	}
	return c.core.n
}

// Cap is cap(c).
//
//go:norace
func (c *Chan[T]) Cap() int {
	if c == nil {
		return 0
	}
	return c.core.cap
}

// All is the iterator behind "for v := range c".
func (c *Chan[T]) All(site int) func(yield func(T) bool) {
	return func(yield func(T) bool) {
		for {
			var v T
			if !chanRecv(c.corePtr(), site, OpRange, unsafe.Pointer(&v)) {
				return
			}
			if !yield(v) {
				return
			}
		}
	}
}

// Zero returns the zero value of c's element type (used by rewritten select
// statements to declare receive temporaries without spelling the type).
func Zero[T any](c *Chan[T]) (z T) { return }

//go:norace
func outside(what string) {
	if theSim == nil {
		panic("simrt: " + what + " outside a simulation")
	}
}

// acquireSlot / releaseSlot are the runtime's racenotify(c, i, nil).
//
//go:norace
func (cc *chanCore) touchSlot(i int) {
	raceAcquire(unsafe.Pointer(&cc.slots[i]))
	if p := cc.slotPre[i]; p != nil {
		raceAcquire(p)
		cc.slotPre[i] = nil
	}
	raceRelease(unsafe.Pointer(&cc.slots[i]))
}

// wake makes the goroutine parked on w runnable, records which arm fired and
// removes its other waiters from their queues.
//
//go:norace
func wake(s *Sim, w *waiter, closed bool) {
	g := w.g
	for _, o := range g.ws {
		if o.onq {
			if o.send {
				o.c.sendq.remove(o)
			} else {
				o.c.recvq.remove(o)
			}
		}
	}
	g.wakeIdx = w.idx
	g.wakeClosed = closed
	s.ready(g)
}

//go:norace
func blockForever(s *Sim, g *G, site int, op Op) {
	g.ws = nil
	s.block(g, site, op)
	panic("simrt: goroutine blocked on a nil channel was woken")
}

// trySend performs a send that can complete now. It reports whether it did.
//
//go:norace
func trySend(s *Sim, cc *chanCore, ptr unsafe.Pointer) bool {
	if cc.closed {
		panic(plainError("send on closed channel"))
	}
	if w := cc.recvq.pop(); w != nil {
		cc.ops.ptrToPtr(w.ptr, ptr)
		if cc.cap == 0 {
			// racesync
			raceRelease(unsafe.Pointer(&w.post))
			raceAcquire(unsafe.Pointer(&w.pre))
		} else {
			i := cc.head
			cc.touchSlot(i)
			raceRelease(unsafe.Pointer(&w.post))
			cc.slotPre[i] = unsafe.Pointer(&w.pre)
			cc.head = (cc.head + 1) % cc.cap
		}
		wake(s, w, false)
		return true
	}
	if cc.n < cc.cap {
		i := (cc.head + cc.n) % cc.cap
		cc.touchSlot(i)
		cc.ops.ptrToBuf(ptr, i)
		cc.n++
		return true
	}
	return false
}

// tryRecv performs a receive that can complete now. done reports whether it
// did; ok is the second result of the receive.
//
//go:norace
func tryRecv(s *Sim, cc *chanCore, ptr unsafe.Pointer) (done, ok bool) {
	if cc.n > 0 {
		i := cc.head
		cc.touchSlot(i)
		cc.ops.bufToPtr(i, ptr)
		if w := cc.sendq.pop(); w != nil {
			// The buffer was full: the parked sender's value takes the freed slot.
			cc.ops.ptrToBuf(w.ptr, i)
			raceRelease(unsafe.Pointer(&w.post))
			cc.slotPre[i] = unsafe.Pointer(&w.pre)
			cc.head = (cc.head + 1) % cc.cap
			wake(s, w, false)
			return true, true
		}
		cc.head = (cc.head + 1) % cc.cap
		cc.n--
		return true, true
	}
	if w := cc.sendq.pop(); w != nil {
		// unbuffered rendezvous with a parked sender
		cc.ops.ptrToPtr(ptr, w.ptr)
		raceRelease(unsafe.Pointer(&w.post))
		raceAcquire(unsafe.Pointer(&w.pre))
		wake(s, w, false)
		return true, true
	}
	if cc.closed {
		raceAcquire(unsafe.Pointer(&cc.cl))
		cc.ops.zeroPtr(ptr)
		return true, false
	}
	return false, false
}

//go:norace
func chanSend(cc *chanCore, site int, ptr unsafe.Pointer) {
	s, g := enter(site, OpSend)
	if s == nil {
		outside("channel send")
		return
	}
	if cc == nil {
		blockForever(s, g, site, OpSend)
	}
	raceRead(unsafe.Pointer(&cc.word))
	if trySend(s, cc, ptr) {
		s.event(g, site, OpSend, CodeDone)
		hitSite(site, 0)
		return
	}
	w := &waiter{g: g, c: cc, ptr: ptr, send: true}
	raceRelease(unsafe.Pointer(&w.pre))
	cc.sendq.push(w)
	g.ws = append1(w)
	s.stats.ChanBlocked++
	s.block(g, site, OpSend)
	g.ws = nil
	if g.wakeClosed {
		raceAcquire(unsafe.Pointer(&cc.cl))
		panic(plainError("send on closed channel"))
	}
	raceAcquire(unsafe.Pointer(&w.post))
}

//go:norace
func append1(w *waiter) []*waiter {
	a := make([]*waiter, 1)
	a[0] = w
	return a
}

//go:norace
func chanRecv(cc *chanCore, site int, op Op, ptr unsafe.Pointer) bool {
	s, g := enter(site, op)
	if s == nil {
		outside("channel receive")
		return false
	}
	if cc == nil {
		blockForever(s, g, site, op)
	}
	if done, ok := tryRecv(s, cc, ptr); done {
		if ok {
			s.event(g, site, op, CodeDone)
			hitSite(site, 0)
		} else {
			s.event(g, site, op, CodeClosed)
			hitSite(site, 2)
		}
		return ok
	}
	w := &waiter{g: g, c: cc, ptr: ptr}
	raceRelease(unsafe.Pointer(&w.pre))
	cc.recvq.push(w)
	g.ws = append1(w)
	s.stats.ChanBlocked++
	s.block(g, site, op)
	g.ws = nil
	if g.wakeClosed {
		raceAcquire(unsafe.Pointer(&cc.cl))
		cc.ops.zeroPtr(ptr)
		hitSite(site, 2)
		return false
	}
	raceAcquire(unsafe.Pointer(&w.post))
	return true
}

//go:norace
func chanClose(cc *chanCore, site int) {
	s, g := enter(site, OpClose)
	if s == nil {
		outside("channel close")
		return
	}
	if cc == nil {
		panic(plainError("close of nil channel"))
	}
	if cc.closed {
		panic(plainError("close of closed channel"))
	}
	raceWrite(unsafe.Pointer(&cc.word))
	raceRelease(unsafe.Pointer(&cc.cl))
	cc.closed = true
	for w := cc.recvq.pop(); w != nil; w = cc.recvq.pop() {
		wake(s, w, true)
	}
	for w := cc.sendq.pop(); w != nil; w = cc.sendq.pop() {
		wake(s, w, true)
	}
	s.event(g, site, OpClose, CodeDone)
	hitSite(site, 0)
}

// SelCase is one arm of a select statement.
type SelCase struct {
	cc   *chanCore
	send bool
	ptr  unsafe.Pointer
	okp  *bool
}

// RecvCase is the arm "case *vp, *okp = <-c"; vp and okp may be nil.
//
//go:norace
func RecvCase[T any](c *Chan[T], vp *T, okp *bool) SelCase {
	if vp == nil {
		vp = new(T)
	}
	return SelCase{cc: c.corePtr(), ptr: unsafe.Pointer(vp), okp: okp}
}

// SendCase is the arm "case c <- v".
//
//go:norace
func SendCase[T any](c *Chan[T], v T) SelCase {
	p := new(T)
	*p = v
	return SelCase{cc: c.corePtr(), send: true, ptr: unsafe.Pointer(p)}
}

// Select is the select statement. It returns the index of the arm that
// fired, or -1 for default.
//
//go:norace
func Select(site int, hasDefault bool, cases ...SelCase) int {
	s, g := enter(site, OpSelect)
	if s == nil {
		outside("select")
		return -1
	}
	var readyBuf [8]int
	ready := readyBuf[:0]
	nready := 0
	for i := range cases {
		cs := &cases[i]
		cc := cs.cc
		if cc == nil {
			continue
		}
		var r bool
		if cs.send {
			r = cc.closed || cc.recvq.head != nil || cc.n < cc.cap
		} else {
			r = cc.n > 0 || cc.sendq.head != nil || cc.closed
		}
		if r {
			if nready < len(readyBuf) {
				ready = readyBuf[:nready+1]
				ready[nready] = i
			}
			nready++
		}
	}
	if nready > len(readyBuf) {
		nready = len(readyBuf) // more than 8 ready arms: choose among the first 8
	}
	if nready > 0 {
		if nready > 1 {
			s.stats.SelectMulti++
		}
		k := ready[s.tape.Choose(KSelect, nready)]
		cs := &cases[k]
		if cs.send {
			raceRead(unsafe.Pointer(&cs.cc.word))
			if !trySend(s, cs.cc, cs.ptr) {
				panic("simrt: ready send arm could not complete")
			}
		} else {
			done, ok := tryRecv(s, cs.cc, cs.ptr)
			if !done {
				panic("simrt: ready receive arm could not complete")
			}
			if cs.okp != nil {
				*cs.okp = ok
			}
		}
		s.event(g, site, OpSelect, uint8(k))
		hitSite(site, 0)
		return k
	}
	if hasDefault {
		s.event(g, site, OpSelect, 199)
		hitSite(site, 2)
		return -1
	}
	// park on every arm
	ws := make([]*waiter, 0, len(cases))
	for i := range cases {
		cs := &cases[i]
		if cs.cc == nil {
			continue
		}
		w := &waiter{g: g, c: cs.cc, ptr: cs.ptr, send: cs.send, idx: i}
		raceRelease(unsafe.Pointer(&w.pre))
		if cs.send {
			cs.cc.sendq.push(w)
		} else {
			cs.cc.recvq.push(w)
		}
		ws = ws[:len(ws)+1]
		ws[len(ws)-1] = w
	}
	g.ws = ws
	s.stats.SelectBlocked++
	s.block(g, site, OpSelect)
	g.ws = nil
	k := g.wakeIdx
	cs := &cases[k]
	var fired *waiter
	for _, w := range ws {
		if w.idx == k {
			fired = w
		}
	}
	if g.wakeClosed {
		raceAcquire(unsafe.Pointer(&cs.cc.cl))
		if cs.send {
			panic(plainError("send on closed channel"))
		}
		cs.cc.ops.zeroPtr(cs.ptr)
		if cs.okp != nil {
			*cs.okp = false
		}
	} else {
		raceAcquire(unsafe.Pointer(&fired.post))
		if !cs.send && cs.okp != nil {
			*cs.okp = true
		}
	}
	s.event(g, site, OpSelect, uint8(k))
	return k
}
