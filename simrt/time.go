package simrt

import (
	"time"
	"unsafe"
)

// timer is a pending wake-up or channel delivery on the simulated clock.
type timer struct {
	at  int64
	seq uint64
	g   *G        // goroutine to wake (Sleep)
	cc  *chanCore // or channel to deliver the fire time to (After)
}

var simEpoch = time.Unix(1_000_000_000, 0)

//go:norace
func (s *Sim) addTimer(t *timer) {
	s.tseq++
	t.seq = s.tseq
	n := len(s.timers)
	if n == cap(s.timers) {
		nt := make([]*timer, n, 2*n+8)
		for i := 0; i < n; i++ {
			nt[i] = s.timers[i]
		}
		s.timers = nt
	}
	s.timers = s.timers[:n+1]
	// insertion into a slice sorted by (at, seq); timers are few
	i := n
	for i > 0 && (s.timers[i-1].at > t.at) {
		s.timers[i] = s.timers[i-1]
		i--
	}
	s.timers[i] = t
}

// fireNextTimers advances the clock to the earliest pending timer and fires
// every timer due at that instant. It reports whether any timer fired.
//
//go:norace
func (s *Sim) fireNextTimers() bool {
	if len(s.timers) == 0 {
		return false
	}
	at := s.timers[0].at
	if at > s.now {
		s.now = at
		s.stats.ClockJumps++
	}
	k := 0
	for k < len(s.timers) && s.timers[k].at <= s.now {
		t := s.timers[k]
		k++
		s.stats.TimerFires++
		if t.g != nil {
			s.ready(t.g)
		} else if t.cc != nil && !t.cc.closed {
			tm := simEpoch.Add(time.Duration(s.now))
			if t.cc.recvq.head != nil || t.cc.n < t.cc.cap {
				trySend(s, t.cc, unsafe.Pointer(&tm))
			}
		}
	}
	n := len(s.timers) - k
	for i := 0; i < n; i++ {
		s.timers[i] = s.timers[i+k]
	}
	for i := n; i < len(s.timers); i++ {
		s.timers[i] = nil
	}
	s.timers = s.timers[:n]
	return true
}

// Now is time.Now on the simulated clock.
//
//go:norace
func Now() time.Time {
	s := theSim
	if s == nil {
		return simEpoch
	}
	return simEpoch.Add(time.Duration(s.now))
}

// Since is time.Since on the simulated clock.
func Since(t time.Time) time.Duration { return Now().Sub(t) }

// Until is time.Until on the simulated clock.
func Until(t time.Time) time.Duration { return t.Sub(Now()) }

// Elapsed returns the simulated nanoseconds since the start of the run.
//
//go:norace
func Elapsed() int64 {
	s := theSim
	if s == nil {
		return 0
	}
	return s.now
}

// Sleep is time.Sleep on the simulated clock: the only thing that moves it.
//
//go:norace
func Sleep(d time.Duration) {
	s, g := enter(-1, OpSleep)
	if s == nil {
		return
	}
	if d <= 0 {
		s.event(g, -1, OpSleep, CodeDone)
		return
	}
	s.addTimer(&timer{at: s.now + int64(d), g: g})
	s.block(g, -1, OpSleep)
}

// After is time.After on the simulated clock.
//
//go:norace
func After(d time.Duration) *Chan[time.Time] {
	c := MakeChan[time.Time](1)
	s := theSim
	if s == nil || s.aborted {
		return c
	}
	if d < 0 {
		d = 0
	}
	s.addTimer(&timer{at: s.now + int64(d), cc: &c.core})
	return c
}
