package simrt

import "sync/atomic"

// sync/atomic for rewritten code: every operation is a scheduling point of its
// own, followed by the real atomic operation (which the race detector of the
// race build understands as a synchronisation). A check-then-act over two
// atomic operations can therefore be interleaved by the scheduler.

func atomicStep() {
	if s, g := enter(-1, OpAtomic); s != nil {
		s.event(g, -1, OpAtomic, CodeDone)
	}
}

func LoadInt32(p *int32) int32     { atomicStep(); return atomic.LoadInt32(p) }
func LoadInt64(p *int64) int64     { atomicStep(); return atomic.LoadInt64(p) }
func LoadUint32(p *uint32) uint32  { atomicStep(); return atomic.LoadUint32(p) }
func LoadUint64(p *uint64) uint64  { atomicStep(); return atomic.LoadUint64(p) }
func StoreInt32(p *int32, v int32) { atomicStep(); atomic.StoreInt32(p, v) }
func StoreInt64(p *int64, v int64) { atomicStep(); atomic.StoreInt64(p, v) }
func StoreUint32(p *uint32, v uint32) {
	atomicStep()
	atomic.StoreUint32(p, v)
}
func StoreUint64(p *uint64, v uint64) {
	atomicStep()
	atomic.StoreUint64(p, v)
}
func AddInt32(p *int32, d int32) int32     { atomicStep(); return atomic.AddInt32(p, d) }
func AddInt64(p *int64, d int64) int64     { atomicStep(); return atomic.AddInt64(p, d) }
func AddUint32(p *uint32, d uint32) uint32 { atomicStep(); return atomic.AddUint32(p, d) }
func AddUint64(p *uint64, d uint64) uint64 { atomicStep(); return atomic.AddUint64(p, d) }
func SwapInt32(p *int32, v int32) int32    { atomicStep(); return atomic.SwapInt32(p, v) }
func SwapInt64(p *int64, v int64) int64    { atomicStep(); return atomic.SwapInt64(p, v) }
func SwapUint32(p *uint32, v uint32) uint32 {
	atomicStep()
	return atomic.SwapUint32(p, v)
}
func SwapUint64(p *uint64, v uint64) uint64 {
	atomicStep()
	return atomic.SwapUint64(p, v)
}
func CompareAndSwapInt32(p *int32, o, n int32) bool {
	atomicStep()
	return atomic.CompareAndSwapInt32(p, o, n)
}
func CompareAndSwapInt64(p *int64, o, n int64) bool {
	atomicStep()
	return atomic.CompareAndSwapInt64(p, o, n)
}
func CompareAndSwapUint32(p *uint32, o, n uint32) bool {
	atomicStep()
	return atomic.CompareAndSwapUint32(p, o, n)
}
func CompareAndSwapUint64(p *uint64, o, n uint64) bool {
	atomicStep()
	return atomic.CompareAndSwapUint64(p, o, n)
}

// The typed forms.

type Int32 struct{ v atomic.Int32 }

func (x *Int32) Load() int32        { atomicStep(); return x.v.Load() }
func (x *Int32) Store(v int32)      { atomicStep(); x.v.Store(v) }
func (x *Int32) Add(d int32) int32  { atomicStep(); return x.v.Add(d) }
func (x *Int32) Swap(v int32) int32 { atomicStep(); return x.v.Swap(v) }
func (x *Int32) CompareAndSwap(o, n int32) bool {
	atomicStep()
	return x.v.CompareAndSwap(o, n)
}

type Int64 struct{ v atomic.Int64 }

func (x *Int64) Load() int64        { atomicStep(); return x.v.Load() }
func (x *Int64) Store(v int64)      { atomicStep(); x.v.Store(v) }
func (x *Int64) Add(d int64) int64  { atomicStep(); return x.v.Add(d) }
func (x *Int64) Swap(v int64) int64 { atomicStep(); return x.v.Swap(v) }
func (x *Int64) CompareAndSwap(o, n int64) bool {
	atomicStep()
	return x.v.CompareAndSwap(o, n)
}

type Uint32 struct{ v atomic.Uint32 }

func (x *Uint32) Load() uint32         { atomicStep(); return x.v.Load() }
func (x *Uint32) Store(v uint32)       { atomicStep(); x.v.Store(v) }
func (x *Uint32) Add(d uint32) uint32  { atomicStep(); return x.v.Add(d) }
func (x *Uint32) Swap(v uint32) uint32 { atomicStep(); return x.v.Swap(v) }
func (x *Uint32) CompareAndSwap(o, n uint32) bool {
	atomicStep()
	return x.v.CompareAndSwap(o, n)
}

type Uint64 struct{ v atomic.Uint64 }

func (x *Uint64) Load() uint64         { atomicStep(); return x.v.Load() }
func (x *Uint64) Store(v uint64)       { atomicStep(); x.v.Store(v) }
func (x *Uint64) Add(d uint64) uint64  { atomicStep(); return x.v.Add(d) }
func (x *Uint64) Swap(v uint64) uint64 { atomicStep(); return x.v.Swap(v) }
func (x *Uint64) CompareAndSwap(o, n uint64) bool {
	atomicStep()
	return x.v.CompareAndSwap(o, n)
}

type Bool struct{ v atomic.Bool }

func (x *Bool) Load() bool       { atomicStep(); return x.v.Load() }
func (x *Bool) Store(v bool)     { atomicStep(); x.v.Store(v) }
func (x *Bool) Swap(v bool) bool { atomicStep(); return x.v.Swap(v) }
func (x *Bool) CompareAndSwap(o, n bool) bool {
	atomicStep()
	return x.v.CompareAndSwap(o, n)
}

type Value struct{ v atomic.Value }

func (x *Value) Load() interface{}   { atomicStep(); return x.v.Load() }
func (x *Value) Store(v interface{}) { atomicStep(); x.v.Store(v) }
func (x *Value) Swap(v interface{}) interface{} {
	atomicStep()
	return x.v.Swap(v)
}
func (x *Value) CompareAndSwap(o, n interface{}) bool {
	atomicStep()
	return x.v.CompareAndSwap(o, n)
}

type Pointer[T any] struct{ v atomic.Pointer[T] }

func (x *Pointer[T]) Load() *T     { atomicStep(); return x.v.Load() }
func (x *Pointer[T]) Store(v *T)   { atomicStep(); x.v.Store(v) }
func (x *Pointer[T]) Swap(v *T) *T { atomicStep(); return x.v.Swap(v) }
func (x *Pointer[T]) CompareAndSwap(o, n *T) bool {
	atomicStep()
	return x.v.CompareAndSwap(o, n)
}
