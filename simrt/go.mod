module verif/simrt

go 1.23
