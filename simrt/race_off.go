//go:build !race

package simrt

import "unsafe"

// RaceBuild reports whether the simulation was built with the race detector.
const RaceBuild = false

func raceDisable()                      {}
func raceEnable()                       {}
func raceAcquire(p unsafe.Pointer)      {}
func raceRelease(p unsafe.Pointer)      {}
func raceReleaseMerge(p unsafe.Pointer) {}
func raceRead(p unsafe.Pointer)         {}
func raceWrite(p unsafe.Pointer)        {}

// RaceErrors returns the number of race reports so far in this process.
func RaceErrors() int { return 0 }
