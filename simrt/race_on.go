//go:build race

package simrt

import (
	"runtime"
	"unsafe"
)

// RaceBuild reports whether the simulation was built with the race detector.
const RaceBuild = true

//go:norace
func raceDisable() { runtime.RaceDisable() }

//go:norace
func raceEnable() { runtime.RaceEnable() }

//go:norace
func raceAcquire(p unsafe.Pointer) { runtime.RaceAcquire(p) }

//go:norace
func raceRelease(p unsafe.Pointer) { runtime.RaceRelease(p) }

//go:norace
func raceReleaseMerge(p unsafe.Pointer) { runtime.RaceReleaseMerge(p) }

//go:norace
func raceRead(p unsafe.Pointer) { runtime.RaceRead(p) }

//go:norace
func raceWrite(p unsafe.Pointer) { runtime.RaceWrite(p) }

// RaceErrors returns the number of race reports so far in this process.
func RaceErrors() int { return runtime.RaceErrors() }
