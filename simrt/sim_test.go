package simrt

import (
	"testing"
	"time"
)

func run(seed uint64, pol Policy, f func()) *Outcome {
	return Run(NewTape(seed), Config{Policy: pol, GOMAXPROCS: 4, PCTDepth: 2, PCTSteps: 50}, f)
}

func TestPipeline(t *testing.T) {
	hashes := map[uint64]bool{}
	for seed := uint64(0); seed < 200; seed++ {
		sum := 0
		out := run(seed, Policy(seed%4), func() {
			c := MakeChan[int](int(seed % 3))
			res := MakeChan[int](0)
			var wg WaitGroup
			for w := 0; w < 3; w++ {
				wg.Add(1)
				Go(1, func() {
					defer wg.Done()
					for v := range c.All(2) {
						res.Send(3, v*2)
					}
				})
			}
			Go(4, func() {
				for i := 1; i <= 10; i++ {
					c.Send(5, i)
				}
				c.Close(6)
			})
			Go(7, func() { wg.Wait(); res.Close(8) })
			for v := range res.All(9) {
				sum += v
			}
		})
		if out.Verdict != VOK || sum != 110 {
			t.Fatalf("seed %d: verdict %v %s sum %d", seed, out.Verdict, out.Msg, sum)
		}
		hashes[out.Hash] = true
	}
	if len(hashes) < 100 {
		t.Fatalf("only %d distinct schedules", len(hashes))
	}
}

func TestDeterminism(t *testing.T) {
	f := func() {
		c := MakeChan[int](1)
		d := MakeChan[int](0)
		var mu Mutex
		n := 0
		for i := 0; i < 4; i++ {
			Go(1, func() {
				for j := 0; j < 5; j++ {
					switch Select(2, false, SendCase(c, j), SendCase(d, j)) {
					}
					mu.Lock()
					n++
					mu.Unlock()
				}
			})
		}
		for k := 0; k < 20; k++ {
			var a, b int
			Select(3, false, RecvCase(c, &a, nil), RecvCase(d, &b, nil))
		}
	}
	for seed := uint64(0); seed < 50; seed++ {
		o1 := run(seed, PolicyRandom, f)
		o2 := run(seed, PolicyRandom, f)
		if o1.Verdict != VOK || o1.Hash != o2.Hash || o1.Steps != o2.Steps {
			t.Fatalf("seed %d: %v %v / %x %x", seed, o1.Verdict, o1.Msg, o1.Hash, o2.Hash)
		}
		// replay from recorded tape
		tp := NewTape(seed)
		o3 := Run(tp, Config{Policy: PolicyRandom}, f)
		o4 := Run(ReplayTape(tp.Recorded()), Config{Policy: PolicyRandom}, f)
		if o3.Hash != o4.Hash {
			t.Fatalf("replay mismatch")
		}
	}
}

func TestDeadlockLeakPanic(t *testing.T) {
	o := run(1, PolicyRandom, func() {
		c := MakeChan[int](0)
		c.Recv(1)
	})
	if o.Verdict != VDeadlock || len(o.Blocked) != 1 {
		t.Fatalf("want deadlock: %+v", o)
	}
	released := false
	o = run(1, PolicyRandom, func() {
		c := MakeChan[int](0)
		Go(1, func() {
			defer func() { released = true }()
			c.Recv(2)
		})
	})
	if o.Verdict != VLeak || len(o.Blocked) != 1 || o.Blocked[0].Site != 2 {
		t.Fatalf("want leak: %+v", o)
	}
	if !released {
		t.Fatalf("leaked goroutine was not released in abort mode")
	}
	o = run(1, PolicyRandom, func() {
		c := MakeChan[int](0)
		Go(1, func() { c.Close(2); c.Close(3) })
		c.Recv(4)
		Yield()
		Yield()
	})
	if o.Verdict != VPanic {
		t.Fatalf("want panic: %+v", o)
	}
	o = Run(NewTape(1), Config{MaxSteps: 1000}, func() {
		for {
			Yield()
		}
	})
	if o.Verdict != VStepLimit {
		t.Fatalf("want steplimit: %+v", o)
	}
	o = run(1, PolicyRandom, func() {
		Go(1, func() { Fail("boom") })
		Sleep(time.Second)
	})
	if o.Verdict != VFail || o.Msg != "boom" {
		t.Fatalf("want fail: %+v", o)
	}
}

func TestClock(t *testing.T) {
	var order []int
	var omu Mutex
	o := run(3, PolicyRandom, func() {
		t0 := Now()
		var wg WaitGroup
		for i := 3; i >= 1; i-- {
			wg.Add(1)
			Go(1, func() {
				defer wg.Done()
				Sleep(time.Duration(i) * time.Minute)
				omu.Lock()
				order = append(order, i)
				omu.Unlock()
			})
		}
		wg.Wait()
		if Since(t0) != 3*time.Minute {
			Fail("clock")
		}
		tm := After(time.Hour).Recv(2)
		if tm.Sub(t0) != time.Hour+3*time.Minute {
			Fail("after")
		}
	})
	if o.Verdict != VOK || len(order) != 3 || order[0] != 1 || order[2] != 3 {
		t.Fatalf("%+v %v", o, order)
	}
}

func TestSelectSemantics(t *testing.T) {
	arms := map[int]int{}
	for seed := uint64(0); seed < 100; seed++ {
		o := run(seed, PolicyRandom, func() {
			a := MakeChan[int](1)
			b := MakeChan[int](1)
			var nilc *Chan[int]
			a.Send(1, 1)
			b.Send(2, 2)
			var v int
			var ok bool
			k := Select(3, false, RecvCase(a, &v, &ok), RecvCase(b, &v, &ok), RecvCase(nilc, nil, nil))
			if !ok || v != k+1 {
				Fail("bad value")
			}
			arms[k]++
			if Select(4, true, RecvCase(nilc, nil, nil)) != -1 {
				Fail("default")
			}
			b.Close(5)
			a.Close(5)
		})
		if o.Verdict != VOK {
			t.Fatalf("%+v", o)
		}
	}
	if arms[0] < 20 || arms[1] < 20 {
		t.Fatalf("select arms not both explored: %v", arms)
	}
}

func TestRWMutexOnce(t *testing.T) {
	for seed := uint64(0); seed < 200; seed++ {
		cnt, inits := 0, 0
		o := run(seed, Policy(seed%4), func() {
			var rw RWMutex
			var once Once
			var wg WaitGroup
			readers := 0
			for i := 0; i < 3; i++ {
				wg.Add(2)
				Go(1, func() {
					defer wg.Done()
					once.Do(func() { Yield(); inits++ })
					if inits != 1 {
						Fail("once not complete")
					}
					rw.Lock()
					if !RaceBuild && readers != 0 {
						Fail("writer with readers")
					}
					c := cnt
					Yield()
					cnt = c + 1
					rw.Unlock()
				})
				Go(2, func() {
					defer wg.Done()
					rw.RLock()
					if !RaceBuild { // racy by design: two readers may hold the lock together
						readers++
					}
					Yield()
					if !RaceBuild {
						readers--
					}
					rw.RUnlock()
				})
			}
			wg.Wait()
		})
		if o.Verdict != VOK || cnt != 3 || inits != 1 {
			t.Fatalf("seed %d %+v cnt %d inits %d", seed, o, cnt, inits)
		}
	}
}

func TestPool(t *testing.T) {
	hits := 0
	for seed := uint64(0); seed < 50; seed++ {
		o := Run(NewTape(seed), Config{Policy: PolicyRandom, PoolMode: PoolTape}, func() {
			p := &Pool{New: func() interface{} { return new(int) }}
			x := p.Get().(*int)
			*x = 7
			p.Put(x)
			y := p.Get().(*int)
			if y == x {
				hits++
			}
		})
		if o.Verdict != VOK {
			t.Fatal(o)
		}
	}
	if hits == 0 || hits == 50 {
		t.Fatalf("hits %d", hits)
	}
}

// A check-then-act over two atomic operations: both outcomes (the last index
// claimed once, or claimed twice) must be reachable, and a seed decides which.
func TestAtomicInterleaving(t *testing.T) {
	claims := map[int]int{}
	for seed := uint64(0); seed < 200; seed++ {
		body := func(out *int) func() {
			return func() {
				var next int64
				var calls Int64
				var wg WaitGroup
				for w := 0; w < 2; w++ {
					wg.Add(1)
					Go(1, func() {
						defer wg.Done()
						for LoadInt64(&next) < 3 {
							AddInt64(&next, 1)
							calls.Add(1)
						}
					})
				}
				wg.Wait()
				*out = int(calls.Load())
			}
		}
		var n1, n2 int
		o1 := run(seed, Policy(seed%4), body(&n1))
		o2 := run(seed, Policy(seed%4), body(&n2))
		if o1.Verdict != VOK || o1.Hash != o2.Hash || n1 != n2 {
			t.Fatalf("seed %d: %v %s; hashes %x %x; calls %d %d", seed, o1.Verdict, o1.Msg, o1.Hash, o2.Hash, n1, n2)
		}
		claims[n1]++
	}
	if claims[3] == 0 || claims[4] == 0 {
		t.Fatalf("calls made over 200 seeds: %v; want both 3 and 4", claims)
	}
}
