// Package simrt is a deterministic, single-baton replacement for the parts of
// the Go runtime that gonum uses for concurrency: goroutines, channels,
// select, package sync, sync.Pool, the clock and GOMAXPROCS. Exactly one
// simulated goroutine runs at any instant and every nondeterministic decision
// is a draw from a Tape, so one tape is one exactly repeatable execution.
package simrt

// Kind names what a tape draw decides. Kinds are used for statistics only; a
// tape is a plain sequence of integers.
type Kind uint8

const (
	KSched    Kind = iota // which runnable goroutine runs next
	KSelect               // which ready select arm fires
	KPool                 // sync.Pool Get: miss / hit on which stored object
	KPoolGC               // sync.Pool purge
	KPrio                 // PCT priorities and change points
	KWorkload             // workload shape drawn by a harness
	KValue                // operand values drawn by a harness
	KFault                // fault placement drawn by a harness
	KCost                 // simulated evaluation cost / stalls
	KPolicy               // scheduling policy / configuration
	nKinds
)

var kindNames = [nKinds]string{"sched", "select", "pool", "poolgc", "prio", "workload", "value", "fault", "cost", "policy"}

// KindName returns a short name for k.
func KindName(k Kind) string {
	if int(k) < len(kindNames) {
		return kindNames[k]
	}
	return "?"
}

// Tape is the single source of nondeterminism of a simulation. In search mode
// it is fed by a SplitMix64 stream and records every draw; in replay mode it
// returns recorded values and 0 past the end, so that every sequence of
// integers is a valid tape.
type Tape struct {
	replay  bool
	vals    []uint32 // replay: input; search: record
	pos     int
	state   uint64
	Draws   [nKinds]uint64 // draws per kind (statistics; never influences choices)
	NonZero [nKinds]uint64
}

// NewTape returns a search-mode tape seeded with seed.
func NewTape(seed uint64) *Tape {
	return &Tape{state: seed, vals: make([]uint32, 0, 256)}
}

// ReplayTape returns a replay-mode tape over vals.
func ReplayTape(vals []uint32) *Tape {
	return &Tape{replay: true, vals: vals}
}

// Mix derives a 64-bit seed from parts (SplitMix64 finaliser chain).
func Mix(parts ...uint64) uint64 {
	h := uint64(0x9e3779b97f4a7c15)
	for _, p := range parts {
		h ^= p + 0x9e3779b97f4a7c15 + (h << 6) + (h >> 2)
		h = mix64(h)
	}
	return h
}

//go:norace
func mix64(z uint64) uint64 {
	z = (z ^ (z >> 30)) * 0xbf58476d1ce4e5b9
	z = (z ^ (z >> 27)) * 0x94d049bb133111eb
	return z ^ (z >> 31)
}

//go:norace
func (t *Tape) next() uint32 {
	t.state += 0x9e3779b97f4a7c15
	return uint32(mix64(t.state) >> 32)
}

// Choose returns a value in [0, n). n <= 1 returns 0 without consuming the
// tape. Value 0 is always "the simplest thing".
//
//go:norace
func (t *Tape) Choose(k Kind, n int) int {
	if n <= 1 {
		return 0
	}
	var v uint32
	if t.replay {
		if t.pos < len(t.vals) {
			v = t.vals[t.pos] % uint32(n)
		}
		t.pos++
	} else {
		v = t.next() % uint32(n)
		t.record(v)
	}
	t.Draws[k]++
	if v != 0 {
		t.NonZero[k]++
	}
	return int(v)
}

// record appends without calling the (race-instrumented) growslice helper.
//
//go:norace
func (t *Tape) record(v uint32) {
	if len(t.vals) == cap(t.vals) {
		nv := make([]uint32, len(t.vals), 2*cap(t.vals)+16)
		for i := range t.vals {
			nv[i] = t.vals[i]
		}
		t.vals = nv
	}
	t.vals = t.vals[:len(t.vals)+1]
	t.vals[len(t.vals)-1] = v
}

// Recorded returns the values drawn so far (search mode) or the input values
// consumed so far, zero-extended (replay mode).
func (t *Tape) Recorded() []uint32 {
	if !t.replay {
		out := make([]uint32, len(t.vals))
		copy(out, t.vals)
		return out
	}
	out := make([]uint32, t.pos)
	copy(out, t.vals)
	return out
}

// Pos returns the number of draws made so far.
func (t *Tape) Pos() int {
	if t.replay {
		return t.pos
	}
	return len(t.vals)
}

// Bool draws a boolean that is true with probability 1/n (never true when the
// tape value is 0).
//
//go:norace
func (t *Tape) OneIn(k Kind, n int) bool { return t.Choose(k, n) == n-1 && n > 1 }
